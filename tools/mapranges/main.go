// Command mapranges lists every `range` over a map-typed expression (and every maps.Keys/maps.Values collection) in the
// non-test files of the given packages of /repo, with a syntactic classification of how iteration order can reach the result:
//
//	set     the body only writes map entries / flags / deletes: order cannot matter
//	sorted  the body appends to slices, every one of which is sorted later in the same function
//	ordered anything else (append with no later sort, string concatenation, early return / break, calls that emit output)
package main

import (
	"encoding/json"
	"fmt"
	"go/ast"
	"go/printer"
	"go/token"
	"go/types"
	"os"
	"sort"
	"strings"

	"golang.org/x/tools/go/packages"
)

type site struct {
	File  string `json:"file"`
	Func  string `json:"func"`
	Expr  string `json:"expr"`
	Class string `json:"class"`
	Why   string `json:"why"`
	Cmp   string `json:"cmp,omitempty"` // for class sorted: how the collected slice is ordered (natural | field:<selector> | custom:<source>)
}

func str(fset *token.FileSet, n ast.Node) string {
	var b strings.Builder
	_ = printer.Fprint(&b, fset, n)
	return strings.Join(strings.Fields(b.String()), " ")
}

type sortCall struct {
	File string `json:"file"`
	Func string `json:"func"`
	Expr string `json:"expr"`
	Cmp  string `json:"cmp"`
}

func main() {
	sortsMode := false
	if len(os.Args) > 1 && os.Args[1] == "-sorts" {
		// second table: every sort call of the packages (what is sorted, in which function, by what order) — lists that arrive in
		// an arbitrary order from the controller (endpoints collected in a map) are made canonical by these calls
		sortsMode = true
		os.Args = append(os.Args[:1], os.Args[2:]...)
	}
	dir := os.Args[1]
	cfg := &packages.Config{Mode: packages.NeedName | packages.NeedFiles | packages.NeedSyntax | packages.NeedTypes | packages.NeedTypesInfo | packages.NeedImports | packages.NeedDeps, Dir: dir}
	pkgs, err := packages.Load(cfg, os.Args[2:]...)
	if err != nil {
		fmt.Fprintln(os.Stderr, err)
		os.Exit(2)
	}
	var sites []site
	var sorts []sortCall
	for _, p := range pkgs {
		if len(p.Errors) > 0 {
			fmt.Fprintln(os.Stderr, p.Errors)
			os.Exit(2)
		}
		for _, f := range p.Syntax {
			fname := p.Fset.Position(f.Pos()).Filename
			if strings.HasSuffix(fname, "_test.go") || strings.Contains(fname, "zz_verif") {
				continue
			}
			rel := strings.TrimPrefix(fname, dir+"/")
			for _, d := range f.Decls {
				fd, ok := d.(*ast.FuncDecl)
				if !ok || fd.Body == nil {
					continue
				}
				// slices sorted anywhere in the function, and by what order
				sorted := map[string]string{}
				ast.Inspect(fd.Body, func(n ast.Node) bool {
					if c, ok := n.(*ast.CallExpr); ok {
						name := str(p.Fset, c.Fun)
						if (strings.HasPrefix(name, "sort.") || strings.HasPrefix(name, "slices.Sort")) && len(c.Args) > 0 {
							sorted[str(p.Fset, c.Args[0])] = comparator(p.Fset, name, c)
							sorts = append(sorts, sortCall{rel, fd.Name.Name, str(p.Fset, c.Args[0]), comparator(p.Fset, name, c)})
						}
					}
					return true
				})
				ast.Inspect(fd.Body, func(n ast.Node) bool {
					switch x := n.(type) {
					case *ast.RangeStmt:
						t := p.TypesInfo.TypeOf(x.X)
						if t == nil {
							return true
						}
						if _, isMap := t.Underlying().(*types.Map); !isMap {
							return true
						}
						class, why, cmp := classify(p.Fset, x, sorted)
						sites = append(sites, site{rel, fd.Name.Name, str(p.Fset, x.X), class, why, cmp})
					case *ast.CallExpr:
						name := str(p.Fset, x.Fun)
						if name == "maps.Keys" || name == "maps.Values" {
							sites = append(sites, site{rel, fd.Name.Name, str(p.Fset, x), "collect", "iterator over a map", ""})
						}
					}
					return true
				})
			}
		}
	}
	sort.Slice(sites, func(i, j int) bool {
		a, b := sites[i], sites[j]
		if a.File != b.File {
			return a.File < b.File
		}
		if a.Func != b.Func {
			return a.Func < b.Func
		}
		return a.Expr < b.Expr
	})
	enc := json.NewEncoder(os.Stdout)
	enc.SetIndent("", " ")
	if sortsMode {
		sort.Slice(sorts, func(i, j int) bool {
			a, b := sorts[i], sorts[j]
			if a.File != b.File {
				return a.File < b.File
			}
			if a.Func != b.Func {
				return a.Func < b.Func
			}
			return a.Expr < b.Expr
		})
		_ = enc.Encode(sorts)
		return
	}
	_ = enc.Encode(sites)
}

// comparator describes the order a sort call imposes: "natural" for sort.Strings / sort.Ints / slices.Sort; "field:<sel>" when the
// less function is exactly `return x[i]<sel> < x[j]<sel>` over the sorted slice with no call in it (a total order on that field);
// anything else is "custom:<source>" and has to be reviewed — a comparator that identifies distinct keys (case folding, truncation)
// leaves their relative order to the map iteration.
func comparator(fset *token.FileSet, name string, c *ast.CallExpr) string {
	switch name {
	case "sort.Strings", "sort.Ints", "sort.Float64s", "slices.Sort":
		return "natural"
	}
	if (name == "sort.Slice" || name == "sort.SliceStable") && len(c.Args) == 2 {
		if fl, ok := c.Args[1].(*ast.FuncLit); ok && len(fl.Body.List) == 1 && len(fl.Type.Params.List) >= 1 {
			var pn []string
			for _, f := range fl.Type.Params.List {
				for _, n := range f.Names {
					pn = append(pn, n.Name)
				}
			}
			if ret, ok := fl.Body.List[0].(*ast.ReturnStmt); ok && len(ret.Results) == 1 && len(pn) == 2 {
				if be, ok := ret.Results[0].(*ast.BinaryExpr); ok && be.Op == token.LSS {
					sl := str(fset, c.Args[0])
					l, r := str(fset, be.X), str(fset, be.Y)
					pi, pj := sl+"["+pn[0]+"]", sl+"["+pn[1]+"]"
					if strings.HasPrefix(l, pi) && strings.HasPrefix(r, pj) && l[len(pi):] == r[len(pj):] && !strings.ContainsAny(l[len(pi):], "()") {
						return "field:" + l[len(pi):]
					}
				}
			}
		}
		return "custom:" + str(fset, c.Args[1])
	}
	return "custom:" + str(fset, c)
}

func classify(fset *token.FileSet, r *ast.RangeStmt, sorted map[string]string) (string, string, string) {
	var appends []string
	var ordered []string
	ast.Inspect(r.Body, func(n ast.Node) bool {
		switch x := n.(type) {
		case *ast.AssignStmt:
			for i, rhs := range x.Rhs {
				if c, ok := rhs.(*ast.CallExpr); ok && str(fset, c.Fun) == "append" && i < len(x.Lhs) {
					appends = append(appends, str(fset, x.Lhs[i]))
				}
			}
			if x.Tok == token.ADD_ASSIGN {
				ordered = append(ordered, "+= "+str(fset, x.Lhs[0]))
			}
		case *ast.ReturnStmt:
			ordered = append(ordered, "return inside the loop")
		case *ast.BranchStmt:
			if x.Tok == token.BREAK {
				ordered = append(ordered, "break")
			}
		case *ast.CallExpr:
			name := str(fset, x.Fun)
			if strings.HasSuffix(name, ".WriteString") || strings.HasSuffix(name, "Fprintf") {
				ordered = append(ordered, "writes output: "+name)
			}
		}
		return true
	})
	if len(ordered) > 0 {
		return "ordered", strings.Join(ordered, "; "), ""
	}
	if len(appends) == 0 {
		return "set", "no append, concatenation or early exit in the body", ""
	}
	var unsorted, cmps []string
	custom := false
	for _, a := range appends {
		c, ok := sorted[a]
		if !ok {
			unsorted = append(unsorted, a)
			continue
		}
		cmps = append(cmps, c)
		if strings.HasPrefix(c, "custom:") {
			custom = true
		}
	}
	if len(unsorted) == 0 {
		if custom {
			return "sorted-custom", "appends to " + strings.Join(appends, ", ") + ", sorted later by a comparator that is not a plain field order", strings.Join(cmps, "; ")
		}
		return "sorted", "appends to " + strings.Join(appends, ", ") + ", sorted later in the function", strings.Join(cmps, "; ")
	}
	return "ordered", "appends to " + strings.Join(unsorted, ", ") + " with no later sort in the function", ""
}
