//go:build verif

// Package verifio is the line-protocol plumbing shared by the verification
// harness binaries. It is injected by -overlay from /verif/harness and is not
// part of the repository.
package verifio

import (
	"bufio"
	"fmt"
	"os"
	"runtime/debug"
	"strings"
)

// Runner evaluates one case line (without the leading id) on the real code and
// returns the canonical observation.
type Runner func(fields []string) string

// Main reads "<kind> <id> <field>..." lines from stdin and prints
// "impl <id> <observation>" for each, flushing per line. A panic inside a
// runner is reported as an observation, never swallowed.
func Main(runners map[string]Runner) {
	in := bufio.NewScanner(os.Stdin)
	in.Buffer(make([]byte, 1<<20), 1<<26)
	out := bufio.NewWriter(os.Stdout)
	defer out.Flush()
	for in.Scan() {
		line := strings.TrimSpace(in.Text())
		if line == "" || strings.HasPrefix(line, "#") {
			continue
		}
		f := strings.Fields(line)
		if len(f) < 2 {
			continue
		}
		r, ok := runners[f[0]]
		if !ok {
			fmt.Fprintf(out, "impl %s bad-kind\n", f[1])
			out.Flush()
			continue
		}
		res := protect(r, f[2:])
		fmt.Fprintf(out, "impl %s %s\n", f[1], res)
		out.Flush()
	}
}

func protect(r Runner, f []string) (res string) {
	defer func() {
		if p := recover(); p != nil {
			res = "PANIC " + strings.ReplaceAll(strings.ReplaceAll(fmt.Sprint(p), " ", "_"), "\n", "_") + "@" + PanicSite(debug.Stack())
			if os.Getenv("VERIF_STACK") != "" {
				fmt.Fprintf(os.Stderr, "%v\n%s\n", p, debug.Stack())
			}
		}
	}()
	return r(f)
}

// KV splits "k=v" fields into a map; fields without '=' map to "".
func KV(f []string) map[string]string {
	m := map[string]string{}
	for _, x := range f {
		i := strings.IndexByte(x, '=')
		if i < 0 {
			m[x] = ""
			continue
		}
		m[x[:i]] = x[i+1:]
	}
	return m
}

// Split splits s by sep, returning nil for the empty string.
func Split(s, sep string) []string {
	if s == "" {
		return nil
	}
	return strings.Split(s, sep)
}

// PanicSite extracts file:line of the innermost frame of the repository (not the harness, not the runtime) from a stack trace.
func PanicSite(stack []byte) string {
	lines := strings.Split(string(stack), "\n")
	seenPanic := false
	for _, l := range lines {
		l = strings.TrimSpace(l)
		if strings.HasPrefix(l, "panic(") {
			seenPanic = true
			continue
		}
		if !seenPanic || !strings.HasPrefix(l, "/") {
			continue
		}
		if strings.Contains(l, "/runtime/") || strings.Contains(l, "zz_verif") || strings.Contains(l, "/verifio/") {
			continue
		}
		f := strings.Fields(l)[0]
		if i := strings.Index(f, "/kubernetes-ingress/"); i >= 0 {
			f = f[i+len("/kubernetes-ingress/"):]
		}
		return strings.TrimPrefix(f, "/repo/")
	}
	return "?"
}
