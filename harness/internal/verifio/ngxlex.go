//go:build verif

package verifio

import (
	"encoding/hex"
	"fmt"
	"regexp"
	"strings"
	"sync"
)

// This file is the Go twin of lean/Nic/Model/NgxLex.lean: a byte-for-byte transcription of the token
// reader of NGINX (src/core/ngx_conf_file.c, ngx_conf_read_token) together with the block bookkeeping of
// ngx_conf_parse. There is no NGINX binary in the sandbox; the transcription is in the trusted base and
// is tied to the Lean model by the `lex` correspondence (same bytes, same events and tokens).

// NgxMode is the tokenizer's position: between tokens (last_space), inside an unquoted word, inside a
// double- or single-quoted string, just after a closing quote (need_space), inside a # comment.
type NgxMode int

const (
	NgxSpace NgxMode = iota
	NgxWord
	NgxDq
	NgxSq
	NgxNeed
	NgxComment
)

// NgxEvent is one structural event: a directive terminated by ';', a block opened by '{', a block closed by '}', or an error.
type NgxEvent struct {
	Kind  string   // "dir" | "open" | "close" | "error"
	Args  []string // raw argument texts (quotes stripped, escapes kept) for dir/open
	Depth int      // block depth at which the event happened (before an open, after a close)
	Msg   string
}

// NgxState is the tokenizer state.
type NgxState struct {
	Mode  NgxMode
	Esc   bool // `quoted`: the previous byte was a backslash
	Var   bool // `variable`: the previous byte was '$' (so a following '{' is literal)
	Depth int
	Err   bool
	args  []string
	cur   []byte
}

func ngxWs(c byte) bool { return c == ' ' || c == '\t' || c == '\r' || c == '\n' }

func (s *NgxState) fresh() {
	s.Mode, s.Esc, s.Var, s.args, s.cur = NgxSpace, false, false, nil, nil
}

func (s *NgxState) fail(msg string, evs *[]NgxEvent) {
	s.Err = true
	*evs = append(*evs, NgxEvent{Kind: "error", Depth: s.Depth, Msg: msg})
}

func (s *NgxState) endDir(evs *[]NgxEvent) {
	*evs = append(*evs, NgxEvent{Kind: "dir", Args: s.args, Depth: s.Depth})
	s.fresh()
}

func (s *NgxState) openBlock(evs *[]NgxEvent) {
	*evs = append(*evs, NgxEvent{Kind: "open", Args: s.args, Depth: s.Depth})
	s.Depth++
	s.fresh()
}

// Step consumes one byte.
func (s *NgxState) Step(c byte, evs *[]NgxEvent) {
	if s.Err {
		return
	}
	if s.Mode == NgxComment {
		if c == '\n' {
			s.Mode = NgxSpace
		}
		return
	}
	if s.Esc {
		s.Esc = false
		s.cur = append(s.cur, c)
		return
	}
	switch s.Mode {
	case NgxNeed:
		switch {
		case ngxWs(c):
			s.Mode = NgxSpace
		case c == ';':
			s.endDir(evs)
		case c == '{':
			s.openBlock(evs)
		case c == ')':
			s.Mode = NgxWord
			s.cur = []byte{c}
		default:
			s.fail(fmt.Sprintf("unexpected %q", string(c)), evs)
		}
	case NgxSpace:
		switch {
		case ngxWs(c):
		case c == ';' || c == '{':
			if len(s.args) == 0 {
				s.fail(fmt.Sprintf("unexpected %q", string(c)), evs)
			} else if c == '{' {
				s.openBlock(evs)
			} else {
				s.endDir(evs)
			}
		case c == '}':
			if len(s.args) != 0 {
				s.fail("unexpected \"}\"", evs)
			} else if s.Depth == 0 {
				s.fail("unexpected \"}\" at top level", evs)
			} else {
				s.Depth--
				*evs = append(*evs, NgxEvent{Kind: "close", Depth: s.Depth})
				s.fresh()
			}
		case c == '#':
			s.Mode = NgxComment
		case c == '\\':
			s.Mode, s.Esc, s.cur = NgxWord, true, []byte{c}
		case c == '"':
			s.Mode, s.cur = NgxDq, []byte{}
		case c == '\'':
			s.Mode, s.cur = NgxSq, []byte{}
		case c == '$':
			s.Mode, s.Var, s.cur = NgxWord, true, []byte{c}
		default:
			s.Mode, s.cur = NgxWord, []byte{c}
		}
	default: // NgxWord, NgxDq, NgxSq
		if c == '{' && s.Var {
			s.cur = append(s.cur, c)
			return
		}
		s.Var = false
		if c == '\\' {
			s.Esc = true
			s.cur = append(s.cur, c)
			return
		}
		if c == '$' {
			s.Var = true
			s.cur = append(s.cur, c)
			return
		}
		switch s.Mode {
		case NgxDq:
			if c == '"' {
				s.args = append(s.args, string(s.cur))
				s.cur = nil
				s.Mode = NgxNeed
				return
			}
		case NgxSq:
			if c == '\'' {
				s.args = append(s.args, string(s.cur))
				s.cur = nil
				s.Mode = NgxNeed
				return
			}
		case NgxWord:
			if ngxWs(c) || c == ';' || c == '{' {
				s.args = append(s.args, string(s.cur))
				s.cur = nil
				switch c {
				case ';':
					s.endDir(evs)
				case '{':
					s.openBlock(evs)
				default:
					s.Mode = NgxSpace
				}
				return
			}
		}
		s.cur = append(s.cur, c)
	}
}

// NgxLex runs the tokenizer over a whole file and adds the end-of-file check.
func NgxLex(content string) []NgxEvent {
	var evs []NgxEvent
	s := &NgxState{}
	for i := 0; i < len(content); i++ {
		s.Step(content[i], &evs)
	}
	if !s.Err {
		switch {
		case len(s.args) > 0 || (s.Mode != NgxSpace && s.Mode != NgxComment):
			s.fail("unexpected end of file, expecting \";\" or \"}\"", &evs)
		case s.Depth != 0:
			s.fail("unexpected end of file, expecting \"}\"", &evs)
		}
	}
	return evs
}

// NgxHex encodes a token for the line protocol.
func NgxHex(s string) string {
	const h = "0123456789abcdef"
	var b strings.Builder
	for i := 0; i < len(s); i++ {
		b.WriteByte(h[s[i]>>4])
		b.WriteByte(h[s[i]&15])
	}
	return b.String()
}

// NgxEventsString is the canonical rendering of an event list: d<depth>:<kind>:<hex arg>,<hex arg>...
func NgxEventsString(evs []NgxEvent) string {
	var parts []string
	for _, e := range evs {
		var as []string
		for _, a := range e.Args {
			as = append(as, NgxHex(a))
		}
		parts = append(parts, fmt.Sprintf("%d:%s:%s", e.Depth, e.Kind, strings.Join(as, ",")))
	}
	return strings.Join(parts, ";")
}

// NgxWellFormed reports the first lexical error of a file, or "".
func NgxWellFormed(content string) string {
	for _, e := range NgxLex(content) {
		if e.Kind == "error" {
			return e.Msg
		}
	}
	return ""
}

// VerifLex is the `lex` runner: hex=<bytes> -> canonical events + well-formedness flag (compared with the Lean model).
func VerifLex(kv map[string]string) string {
	b, err := hex.DecodeString(kv["hex"])
	if err != nil {
		return "bad-hex"
	}
	evs := NgxLex(string(b))
	wf := "wf=1"
	for _, e := range evs {
		if e.Kind == "error" {
			wf = "wf=0"
		}
	}
	return NgxEventsString(evs) + "#" + wf
}

var (
	verifReCache = map[string]*regexp.Regexp{}
	verifReMu    sync.Mutex
)

// VerifRe is the `re` runner: pat=<hex pattern> s=<hex string> -> 1 | 0 by Go's regexp (compared with the Lean matcher
// run on the regenerated term of the same name).
func VerifRe(kv map[string]string) string {
	pat, err1 := hex.DecodeString(kv["pat"])
	s, err2 := hex.DecodeString(kv["s"])
	if err1 != nil || err2 != nil {
		return "bad-hex"
	}
	verifReMu.Lock()
	re := verifReCache[string(pat)]
	if re == nil {
		var err error
		re, err = regexp.Compile(string(pat))
		if err != nil {
			verifReMu.Unlock()
			return "bad-pattern"
		}
		verifReCache[string(pat)] = re
	}
	verifReMu.Unlock()
	if re.MatchString(string(s)) {
		return "1"
	}
	return "0"
}
