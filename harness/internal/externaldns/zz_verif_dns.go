//go:build verif

package externaldns

import (
	"context"
	"errors"
	"fmt"
	"reflect"
	"strconv"
	"strings"

	vsapi "github.com/nginx/kubernetes-ingress/pkg/apis/configuration/v1"
	extdnsapi "github.com/nginx/kubernetes-ingress/pkg/apis/externaldns/v1"
	extfake "github.com/nginx/kubernetes-ingress/pkg/client/clientset/versioned/fake"
	extdnslisters "github.com/nginx/kubernetes-ingress/pkg/client/listers/externaldns/v1"
	apierrors "k8s.io/apimachinery/pkg/api/errors"
	metav1 "k8s.io/apimachinery/pkg/apis/meta/v1"
	"k8s.io/apimachinery/pkg/runtime"
	"k8s.io/apimachinery/pkg/runtime/schema"
	"k8s.io/apimachinery/pkg/types"
	k8stesting "k8s.io/client-go/testing"
	"k8s.io/client-go/tools/cache"
	"k8s.io/client-go/tools/record"
)

func verifUnq(s string) string {
	if s == "_" {
		return ""
	}
	return s
}

// verifVS: host,ttl,rtype,label,plabel,targets(+ separated),enable
func verifVS(s string) *vsapi.VirtualServer {
	f := strings.Split(s, ",")
	vs := &vsapi.VirtualServer{ObjectMeta: metav1.ObjectMeta{Namespace: "d", Name: "vs", UID: types.UID("uid-vs")}}
	vs.Spec.Host = f[0]
	ttl, _ := strconv.Atoi(f[1])
	vs.Spec.ExternalDNS = vsapi.ExternalDNS{Enable: f[6] == "1", RecordTTL: int64(ttl), RecordType: verifUnq(f[2])}
	if l := verifUnq(f[3]); l != "" {
		vs.Labels = map[string]string{"l": l}
	}
	if l := verifUnq(f[4]); l != "" {
		vs.Spec.ExternalDNS.Labels = map[string]string{"p": l}
	}
	for _, t := range strings.Split(verifUnq(f[5]), "+") {
		if t != "" {
			vs.Status.ExternalEndpoints = append(vs.Status.ExternalEndpoints, vsapi.ExternalEndpoint{IP: t})
		}
	}
	return vs
}

type verifStore struct {
	objs map[string]*extdnsapi.DNSEndpoint
}

func verifEssence(e *extdnsapi.DNSEndpoint) string {
	var eps []string
	for _, x := range e.Spec.Endpoints {
		eps = append(eps, fmt.Sprintf("%v", *x))
	}
	return fmt.Sprintf("%v|%v", eps, e.Labels)
}

// VerifDNS runs VirtualServer edit sequences through the real externaldns SyncFnFor. The fake clientset has no
// list kind for DNSEndpoints, so the lister's indexer is kept current from the recorded write actions.
func VerifDNS(kv map[string]string) string {
	seq := strings.Split(kv["seq"], ";")
	mk := func(objs ...runtime.Object) (*extfake.Clientset, cache.Indexer, SyncFn) {
		cl := extfake.NewSimpleClientset(objs...)
		idx := cache.NewIndexer(cache.MetaNamespaceKeyFunc, cache.Indexers{cache.NamespaceIndex: cache.MetaNamespaceIndexFunc})
		for _, o := range objs {
			_ = idx.Add(o)
		}
		ig := map[string]*namespacedInformer{"": {extdnslister: extdnslisters.NewDNSEndpointLister(idx)}}
		return cl, idx, SyncFnFor(record.NewFakeRecorder(1000), cl, ig)
	}
	var objs []runtime.Object
	var foreign *extdnsapi.DNSEndpoint
	switch kv["pre"] {
	case "unowned", "foreign":
		foreign = &extdnsapi.DNSEndpoint{ObjectMeta: metav1.ObjectMeta{Namespace: "d", Name: "vs"},
			Spec: extdnsapi.DNSEndpointSpec{Endpoints: []*extdnsapi.Endpoint{{DNSName: "someone-else.ex"}}}}
		if kv["pre"] == "foreign" {
			other := &vsapi.VirtualServer{ObjectMeta: metav1.ObjectMeta{Namespace: "d", Name: "other", UID: "uid-other"}}
			foreign.OwnerReferences = []metav1.OwnerReference{*metav1.NewControllerRef(other, vsGVK)}
		}
		objs = append(objs, foreign.DeepCopy())
	}
	cl, idx, sync := mk(objs...)
	faultStep, faultKind := -1, ""
	if kv["fault"] != "" && kv["fault"] != "-" {
		p := strings.Split(kv["fault"], ":")
		faultStep, _ = strconv.Atoi(p[0])
		faultKind = p[1]
	}
	armed := false
	cl.PrependReactor("*", "dnsendpoints", func(a k8stesting.Action) (bool, runtime.Object, error) {
		if !armed || (a.GetVerb() != "create" && a.GetVerb() != "update") {
			return false, nil, nil
		}
		armed = false
		gr := schema.GroupResource{Group: "externaldns.nginx.org", Resource: "dnsendpoints"}
		switch faultKind {
		case "conflict":
			return true, nil, apierrors.NewConflict(gr, "x", errors.New("injected"))
		case "exists":
			return true, nil, apierrors.NewAlreadyExists(gr, "x")
		}
		return true, nil, errors.New("injected failure")
	})
	// the lister cache is refreshed the way an informer does it: only when the stored object changed since the last refresh (a write
	// that failed leaves the cached object as it is, including anything the code under test did to it)
	var seen *extdnsapi.DNSEndpoint
	refresh := func() {
		o, err := cl.ExternaldnsV1().DNSEndpoints("d").Get(context.Background(), "vs", metav1.GetOptions{})
		if err != nil {
			for _, x := range idx.List() {
				_ = idx.Delete(x)
			}
			seen = nil
			return
		}
		if seen != nil && reflect.DeepEqual(seen, o) && len(idx.List()) == 1 {
			return
		}
		seen = o.DeepCopy()
		for _, x := range idx.List() {
			_ = idx.Delete(x)
		}
		_ = idx.Add(o.DeepCopy())
	}
	writes := func(from int) []string {
		var out []string
		for _, a := range cl.Actions()[from:] {
			switch a.GetVerb() {
			case "create":
				out = append(out, "C:vs")
			case "update":
				out = append(out, "U:vs")
			case "delete":
				out = append(out, "D:vs")
			}
		}
		return out
	}
	var out []string
	for i, s := range seq {
		vs := verifVS(s)
		from := len(cl.Actions())
		armed = i == faultStep
		err := sync(context.Background(), vs)
		refresh()
		retries := 0
		for err != nil && retries < 3 && vs.Status.ExternalEndpoints != nil {
			retries++
			err = sync(context.Background(), vs)
			refresh()
		}
		acts := writes(from)
		e := 0
		if err != nil {
			e = 1
		}
		from2 := len(cl.Actions())
		_ = sync(context.Background(), vs)
		refresh()
		idem := len(writes(from2))
		fresh := "na"
		if vs.Spec.ExternalDNS.Enable && err == nil {
			cl0, _, sync0 := mk()
			_ = sync0(context.Background(), vs)
			want, werr := cl0.ExternaldnsV1().DNSEndpoints("d").Get(context.Background(), "vs", metav1.GetOptions{})
			got, gerr := cl.ExternaldnsV1().DNSEndpoints("d").Get(context.Background(), "vs", metav1.GetOptions{})
			switch {
			case werr != nil:
				fresh = "nodesired"
			case gerr != nil:
				fresh = "missing"
			case !metav1.IsControlledBy(got, vs):
				fresh = "notours"
			case verifEssence(got) == verifEssence(want):
				fresh = "1"
			default:
				fresh = "0"
			}
		}
		untouched := "na"
		if foreign != nil {
			cur, gerr := cl.ExternaldnsV1().DNSEndpoints("d").Get(context.Background(), "vs", metav1.GetOptions{})
			if gerr == nil && reflect.DeepEqual(cur.Spec, foreign.Spec) && reflect.DeepEqual(cur.OwnerReferences, foreign.OwnerReferences) {
				untouched = "1"
			} else {
				untouched = "0"
			}
		}
		owned := ""
		if cur, gerr := cl.ExternaldnsV1().DNSEndpoints("d").Get(context.Background(), "vs", metav1.GetOptions{}); gerr == nil && metav1.IsControlledBy(cur, vs) {
			owned = "vs"
		}
		out = append(out, fmt.Sprintf("err=%d#a=%s#idem=%d#fresh=%s#foreign=%s#owned=%s", e, strings.Join(acts, "+"), idem, fresh, untouched, owned))
	}
	return strings.Join(out, ";;")
}
