//go:build verif

package k8s

import (
	"context"
	"fmt"
	"reflect"
	"sort"
	"strconv"
	"strings"

	"github.com/nginx/kubernetes-ingress/internal/configs"
	"github.com/nginx/kubernetes-ingress/internal/k8s/secrets"
	nl "github.com/nginx/kubernetes-ingress/internal/logger"
	"github.com/nginx/kubernetes-ingress/internal/metrics/collectors"
	"github.com/nginx/kubernetes-ingress/internal/nginx"
	conf_v1 "github.com/nginx/kubernetes-ingress/pkg/apis/configuration/v1"
	"github.com/nginx/kubernetes-ingress/pkg/apis/configuration/validation"
	conf_fake "github.com/nginx/kubernetes-ingress/pkg/client/clientset/versioned/fake"
	api_v1 "k8s.io/api/core/v1"
	discovery_v1 "k8s.io/api/discovery/v1"
	networking "k8s.io/api/networking/v1"
	metav1 "k8s.io/apimachinery/pkg/apis/meta/v1"
	"k8s.io/apimachinery/pkg/types"
	"k8s.io/apimachinery/pkg/util/intstr"
	"k8s.io/client-go/kubernetes/fake"
	"k8s.io/client-go/tools/cache"
	"k8s.io/client-go/tools/record"
)

// verifLbcWorld is a real LoadBalancerController (built by the real constructor on fake clientsets) whose
// Configurator writes to the recording nginx.Manager. Informer stores are filled directly; events are delivered
// through the real event handlers; the real work queue is drained by calling the real sync for each task.
type verifLbcWorld struct {
	gen  int64
	lbc  *LoadBalancerController
	rm   *nginx.VerifRecManager
	plus bool
	dssl bool
	out  []string
}

func verifNewLbc(plus, dssl bool) (*verifLbcWorld, error) {
	cnf, rm, err := configs.VerifNewRecConfigurator(plus, false, dssl)
	if err != nil {
		return nil, err
	}
	ctx := nl.ContextWithLogger(context.Background(), verifLogger)
	lbc := NewLoadBalancerController(NewLoadBalancerControllerInput{
		KubeClient:                   fake.NewSimpleClientset(),
		ConfClient:                   conf_fake.NewSimpleClientset(),
		Recorder:                     &record.FakeRecorder{},
		LoggerContext:                ctx,
		Namespace:                    []string{""},
		SecretNamespace:              []string{""},
		NginxConfigurator:            cnf,
		IsNginxPlus:                  plus,
		IngressClass:                 "nginx",
		ControllerNamespace:          "nginx-ingress",
		ConfigMaps:                   "nginx-ingress/nginx-config",
		AreCustomResourcesEnabled:    true,
		EnableOIDC:                   false,
		MetricsCollector:             collectors.NewControllerFakeCollector(),
		GlobalConfigurationValidator: validation.NewGlobalConfigurationValidator(map[int]bool{}),
		TransportServerValidator:     validation.NewTransportServerValidator(true, false, plus),
		VirtualServerValidator:       validation.NewVirtualServerValidator(validation.IsPlus(plus)),
		IsTLSPassthroughEnabled:      true,
	})
	return &verifLbcWorld{lbc: lbc, rm: rm, plus: plus, dssl: dssl}, nil
}

func (w *verifLbcWorld) nsi() *namespacedInformer { return w.lbc.namespacedInformers[""] }

func verifKindName(k kind) string {
	names := map[kind]string{ingress: "ingress", endpointslice: "endpointslice", configMap: "configmap", secret: "secret", service: "service",
		virtualserver: "virtualserver", virtualServerRoute: "vsr", transportserver: "transportserver", policy: "policy"}
	if n, ok := names[k]; ok {
		return n
	}
	return "k" + strconv.Itoa(int(k))
}

// drain runs the real sync for every queued task, in queue order, and logs each task with the window it ran in.
func (w *verifLbcWorld) drain() {
	q := w.lbc.syncQueue.queue
	guard := 0
	for q.Len() > 0 && guard < 200 {
		guard++
		item, _ := q.Get()
		t := item.(task)
		readyBefore, batchBefore := w.lbc.isNginxReady, w.lbc.batchSyncEnabled
		w.lbc.sync(t)
		q.Done(item)
		readyAfter, batchAfter := w.lbc.isNginxReady, w.lbc.batchSyncEnabled
		held := !readyBefore || batchBefore || batchAfter
		drained := (!readyBefore && readyAfter) || (batchBefore && !batchAfter)
		evs := w.rm.VerifTake()
		b := func(x bool) string {
			if x {
				return "1"
			}
			return "0"
		}
		w.out = append(w.out, "T|"+verifKindName(t.Kind)+"|"+b(held && !drained)+"|"+b(drained))
		w.out = append(w.out, evs...)
		en := b(w.lbc.configurator.VerifReloadsEnabled())
		w.out = append(w.out, "RET|ok|"+en+"|"+strings.Join(w.rm.VerifStaticSecrets(), "+"))
	}
}

// stale regenerates every served resource from the current stores with a fresh Configurator and reports the
// items (static part / upstream server list per file) in which the controller's files differ.
func (w *verifLbcWorld) stale() []string {
	cnf2, rm2, err := configs.VerifNewRecConfigurator(w.plus, false, w.dssl)
	if err != nil {
		return []string{"setup-error"}
	}
	cnf2.CfgParams = w.lbc.configurator.CfgParams
	cnf2.EnableReloads()
	exes := w.lbc.createExtendedResources(w.lbc.configuration.GetResources())
	w.rm.VerifTake() // lookups of the oracle are not part of the controller's trace
	_, _ = cnf2.AddOrUpdateResources(exes, false)
	var out []string
	relevantFile := func(f string) bool { return strings.HasPrefix(f, "conf/") || strings.HasPrefix(f, "stream/") }
	for f, items := range rm2.Items {
		if !relevantFile(f) {
			continue
		}
		have, ok := w.rm.Items[f]
		if !ok {
			out = append(out, "missing:"+f)
			continue
		}
		for k, v := range items {
			if have[k] != v {
				out = append(out, k)
			}
		}
		for k := range have {
			if _, ok := items[k]; !ok {
				out = append(out, "extra:"+k)
			}
		}
	}
	for f := range w.rm.Items {
		if relevantFile(f) {
			if _, ok := rm2.Items[f]; !ok {
				out = append(out, "leftover:"+f)
			}
		}
	}
	sort.Strings(out)
	return out
}

func verifLbcIngress(id, svc string, ver int, opts map[string]string) *networking.Ingress {
	pt := networking.PathTypePrefix
	cls := "nginx"
	ing := &networking.Ingress{ObjectMeta: metav1.ObjectMeta{Namespace: "d", Name: id, UID: types.UID("u-" + id),
		Annotations: map[string]string{"nginx.org/proxy-connect-timeout": strconv.Itoa(30+ver) + "s"}}}
	ing.Spec.IngressClassName = &cls
	ing.Spec.Rules = []networking.IngressRule{{Host: id + ".ex", IngressRuleValue: networking.IngressRuleValue{
		HTTP: &networking.HTTPIngressRuleValue{Paths: []networking.HTTPIngressPath{{Path: "/", PathType: &pt,
			Backend: networking.IngressBackend{Service: &networking.IngressServiceBackend{Name: svc, Port: networking.ServiceBackendPort{Number: 80}}}}}}}}}
	if s := opts["tls"]; s != "" {
		ing.Spec.TLS = []networking.IngressTLS{{Hosts: []string{id + ".ex"}, SecretName: s}}
	}
	if s := opts["basic"]; s != "" {
		ing.Annotations["nginx.org/basic-auth-secret"] = s
	}
	if s := opts["jwt"]; s != "" {
		ing.Annotations["nginx.com/jwt-key"] = s
		ing.Annotations["nginx.com/jwt-realm"] = "r"
	}
	return ing
}

func verifLbcVS(id, svc string, ver int, opts map[string]string) *conf_v1.VirtualServer {
	vs := &conf_v1.VirtualServer{ObjectMeta: metav1.ObjectMeta{Namespace: "d", Name: id, UID: types.UID("u-" + id), Generation: int64(ver + 1)}}
	vs.Spec.IngressClass = "nginx"
	vs.Spec.Host = id + ".ex"
	vs.Spec.Upstreams = []conf_v1.Upstream{{Name: "u", Service: svc, Port: 80, ProxyConnectTimeout: strconv.Itoa(30+ver) + "s"}}
	vs.Spec.Routes = []conf_v1.Route{{Path: "/", Action: &conf_v1.Action{Pass: "u"}}}
	if p := opts["pol"]; p != "" {
		vs.Spec.Policies = []conf_v1.PolicyReference{{Name: p}}
	}
	if p := opts["rpol"]; p != "" {
		vs.Spec.Routes[0].Policies = []conf_v1.PolicyReference{{Name: p}}
	}
	if s := opts["tls"]; s != "" {
		vs.Spec.TLS = &conf_v1.TLS{Secret: s}
	}
	if c := opts["cls"]; c != "" {
		vs.Spec.IngressClass = c // a VirtualServer of another controller's class
	}
	return vs
}

func verifLbcTS(id, svc string, ver int) *conf_v1.TransportServer {
	ts := &conf_v1.TransportServer{ObjectMeta: metav1.ObjectMeta{Namespace: "d", Name: id, UID: types.UID("u-" + id), Generation: int64(ver + 1)}}
	ts.Spec.IngressClass = "nginx"
	ts.Spec.Listener = conf_v1.TransportServerListener{Name: conf_v1.TLSPassthroughListenerName, Protocol: conf_v1.TLSPassthroughListenerProtocol}
	ts.Spec.Host = id + ".ex"
	ts.Spec.Upstreams = []conf_v1.TransportServerUpstream{{Name: "u", Service: svc, Port: 80, MaxFails: &[]int{1 + ver}[0]}}
	ts.Spec.Action = &conf_v1.TransportServerAction{Pass: "u"}
	return ts
}

func verifLbcService(name string, ver int) *api_v1.Service {
	s := &api_v1.Service{ObjectMeta: metav1.ObjectMeta{Namespace: "d", Name: name}}
	s.Spec.ClusterIP = "10.96.0.9"
	s.Spec.Selector = map[string]string{"app": name}
	s.Spec.Ports = []api_v1.ServicePort{{Name: "p" + strconv.Itoa(ver), Port: 80, TargetPort: intstr.FromInt(8080), Protocol: api_v1.ProtocolTCP}}
	return s
}

func verifLbcSlice(name, svc, eps string) *discovery_v1.EndpointSlice {
	es := &discovery_v1.EndpointSlice{ObjectMeta: metav1.ObjectMeta{Namespace: "d", Name: name, Labels: map[string]string{"kubernetes.io/service-name": svc}}}
	port := int32(8080)
	proto := api_v1.ProtocolTCP
	es.Ports = []discovery_v1.EndpointPort{{Port: &port, Protocol: &proto}}
	t := true
	if eps != "_" && eps != "" {
		for _, c := range strings.Split(eps, "+") {
			es.Endpoints = append(es.Endpoints, discovery_v1.Endpoint{Addresses: []string{fmt.Sprintf("10.2.0.%d", int(c[0]-'a')+1)},
				Conditions: discovery_v1.EndpointConditions{Ready: &t}})
		}
	}
	return es
}

func verifLbcSecret(name, typ string, ver int) *api_v1.Secret {
	s := &api_v1.Secret{ObjectMeta: metav1.ObjectMeta{Namespace: "d", Name: name, ResourceVersion: strconv.Itoa(ver)}}
	switch typ {
	case "htpasswd":
		s.Type = secrets.SecretTypeHtpasswd
		s.Data = map[string][]byte{"htpasswd": []byte("user:pw" + strconv.Itoa(ver))}
	case "jwk":
		s.Type = secrets.SecretTypeJWK
		s.Data = map[string][]byte{"jwk": []byte(`{"keys":[{"k":"v` + strconv.Itoa(ver) + `","kty":"oct","kid":"1"}]}`)}
	case "apikey":
		s.Type = secrets.SecretTypeAPIKey
		s.Data = map[string][]byte{"client1": []byte("key" + strconv.Itoa(ver))}
	case "ca":
		s.Type = secrets.SecretTypeCA
		c, _ := configs.VerifPEMPair(name + "-" + strconv.Itoa(ver))
		s.Data = map[string][]byte{"ca.crt": c}
	case "tls":
		s.Type = api_v1.SecretTypeTLS
		c, k := configs.VerifPEMPair(name + "-" + strconv.Itoa(ver))
		s.Data = map[string][]byte{"tls.crt": c, "tls.key": k}
	case "bad":
		s.Type = secrets.SecretTypeHtpasswd
		s.Data = map[string][]byte{}
	}
	return s
}

func verifLbcPolicy(name, kind, sec string, ver int) *conf_v1.Policy {
	p := &conf_v1.Policy{ObjectMeta: metav1.ObjectMeta{Namespace: "d", Name: name, Generation: int64(ver + 1)}}
	p.Spec.IngressClass = "nginx"
	switch kind {
	case "basic":
		p.Spec.BasicAuth = &conf_v1.BasicAuth{Realm: "r" + strconv.Itoa(ver), Secret: sec}
	case "jwt":
		p.Spec.JWTAuth = &conf_v1.JWTAuth{Realm: "r" + strconv.Itoa(ver), Secret: sec}
	case "apikey":
		p.Spec.APIKey = &conf_v1.APIKey{SuppliedIn: &conf_v1.SuppliedIn{Header: []string{"X-Key" + strconv.Itoa(ver)}}, ClientSecret: sec}
	case "imtls":
		p.Spec.IngressMTLS = &conf_v1.IngressMTLS{ClientCertSecret: sec, VerifyDepth: &[]int{1 + ver}[0]}
	case "emtls":
		p.Spec.EgressMTLS = &conf_v1.EgressMTLS{TrustedCertSecret: sec, VerifyServer: true, VerifyDepth: &[]int{1 + ver}[0]}
	case "rl":
		p.Spec.RateLimit = &conf_v1.RateLimit{Rate: strconv.Itoa(10+ver) + "r/s", ZoneSize: "10M", Key: "${binary_remote_addr}"}
	}
	return p
}

// apply delivers one store mutation through the real event handler of its kind.
func (w *verifLbcWorld) apply(m string) string {
	del := strings.HasPrefix(m, "-")
	f := strings.Split(m[1:], "/")
	for len(f) < 5 {
		f = append(f, "")
	}
	id := f[0]
	opts := map[string]string{}
	for _, o := range f[1:] {
		if p := strings.SplitN(o, "=", 2); len(p) == 2 {
			opts[p[0]] = p[1]
		}
	}
	ver := func(s string) int { n, _ := strconv.Atoi(s); return n }
	deliver := func(store cache.Store, h cache.ResourceEventHandlerFuncs, key string, obj interface{}) {
		old, exists, _ := store.GetByKey(key)
		// the API server bumps metadata.generation of an Ingress or custom resource whenever its spec changes
		w.gen++
		switch o := obj.(type) {
		case *networking.Ingress:
			o.Generation = w.gen
			if ov, ok := old.(*networking.Ingress); ok && exists && reflect.DeepEqual(ov.Spec, o.Spec) {
				o.Generation = ov.Generation
			}
		case *conf_v1.VirtualServer:
			o.Generation = w.gen
			if ov, ok := old.(*conf_v1.VirtualServer); ok && exists && reflect.DeepEqual(ov.Spec, o.Spec) {
				o.Generation = ov.Generation
			}
		case *conf_v1.TransportServer:
			o.Generation = w.gen
			if ov, ok := old.(*conf_v1.TransportServer); ok && exists && reflect.DeepEqual(ov.Spec, o.Spec) {
				o.Generation = ov.Generation
			}
		case *conf_v1.Policy:
			o.Generation = w.gen
			if ov, ok := old.(*conf_v1.Policy); ok && exists && reflect.DeepEqual(ov.Spec, o.Spec) {
				o.Generation = ov.Generation
			}
		}
		switch {
		case del && exists:
			_ = store.Delete(old)
			h.OnDelete(old)
		case del:
		case exists:
			_ = store.Update(obj)
			h.OnUpdate(old, obj)
		default:
			_ = store.Add(obj)
			h.OnAdd(obj, false)
		}
	}
	nsi := w.nsi()
	switch id[0] {
	case 'i':
		deliver(nsi.ingressLister.Store, createIngressHandlers(w.lbc), "d/"+id, verifLbcIngress(id, f[1], ver(f[2]), opts))
	case 'v':
		deliver(nsi.virtualServerLister, createVirtualServerHandlers(w.lbc), "d/"+id, verifLbcVS(id, f[1], ver(f[2]), opts))
	case 't':
		deliver(nsi.transportServerLister, createTransportServerHandlers(w.lbc), "d/"+id, verifLbcTS(id, f[1], ver(f[2])))
	case 's':
		svc := verifLbcService(id, ver(f[1]))
		if tp, err := strconv.Atoi(opts["tp"]); err == nil { // the Service's targetPort edited in place
			svc.Spec.Ports[0].TargetPort = intstr.FromInt(tp)
		}
		deliver(nsi.svcLister, createServiceHandlers(w.lbc), "d/"+id, svc)
	case 'e': // e<svc-number>.<slice index>/<svc>/<addrs>
		sl := verifLbcSlice(id, f[1], f[2])
		if pn, err := strconv.Atoi(opts["port"]); err == nil { // the slice's port rewritten, endpoints untouched
			p32 := int32(pn)
			sl.Ports[0].Port = &p32
		}
		deliver(nsi.endpointSliceLister.Store, createEndpointSliceHandlers(w.lbc), "d/"+id, sl)
	case 'k':
		deliver(nsi.secretLister, createSecretHandlers(w.lbc), "d/"+id, verifLbcSecret(id, f[1], ver(f[2])))
	case 'p':
		pol := verifLbcPolicy(id, f[1], f[2], ver(f[3]))
		if c := opts["cls"]; c != "" {
			pol.Spec.IngressClass = c // a Policy that names another controller's class is dropped by the generation
		}
		deliver(nsi.policyLister, createPolicyHandlers(w.lbc), "d/"+id, pol)
	case 'c':
		cm := &api_v1.ConfigMap{ObjectMeta: metav1.ObjectMeta{Namespace: "nginx-ingress", Name: "nginx-config"},
			Data: map[string]string{"worker-connections": strconv.Itoa(1024 + ver(f[1]))}}
		deliver(w.lbc.configMapLister.Store, createConfigMapHandlers(w.lbc, "nginx-config"), "nginx-ingress/nginx-config", cm)
	default:
		return "bad-mutation"
	}
	return ""
}

// VerifLbc runs bursts of store mutations through the real controller.
//
// kv: plus=0|1 dssl=0|1 rf=<reload call indices that fail> af=<API call indices that fail>
// bursts = burst;burst;...  burst = mutation&mutation&...   (all mutations of a burst are queued before the queue is drained,
// so a burst of one is a single task and a longer burst is a batch; the first burst is the start-up)
//
//	+i1/s1/ver[/tls=k1][/basic=k1][/jwt=k1]   -i1        Ingress
//	+v1/s1/ver[/pol=p1][/rpol=p1][/tls=k1]    -v1        VirtualServer
//	+t1/s1/ver                                -t1        TransportServer (TLS passthrough)
//	+s1/ver   -s1                                        Service (ver changes the port name)
//	+e1.0/s1/a+b   -e1.0                                 EndpointSlice of service s1
//	+k1/htpasswd|jwk|apikey|ca|tls|bad/ver   -k1         Secret
//	+p1/basic|jwt|apikey|imtls|emtls|rl/k1/ver    -p1    Policy
//	+c/ver   -c                                          ConfigMap
//
// Output: the Manager-boundary trace, each task bracketed by T|kind|held|drained … RET|ok|enabled|static-secrets, each burst
// closed by END|<items in which the files differ from a fresh regeneration of every served resource>.
func VerifLbc(kv map[string]string) string {
	w, err := verifNewLbc(kv["plus"] == "1", kv["dssl"] != "0")
	if err != nil {
		return "setup-error:" + strings.ReplaceAll(err.Error(), " ", "_")
	}
	idx := func(s string) map[int]bool {
		out := map[int]bool{}
		if s == "_" || s == "" {
			return out
		}
		for _, x := range strings.Split(s, "+") {
			n, _ := strconv.Atoi(x)
			out[n] = true
		}
		return out
	}
	w.rm.FailReload, w.rm.FailAPI = idx(kv["rf"]), idx(kv["af"])
	for _, burst := range strings.Split(kv["bursts"], ";") {
		for _, m := range strings.Split(burst, "&") {
			if m == "" {
				continue
			}
			if e := w.apply(m); e != "" {
				return e
			}
		}
		w.drain()
		w.out = append(w.out, "END|"+strings.Join(w.stale(), "+"))
	}
	return strings.Join(w.out, ",")
}
