//go:build verif

package k8s

import (
	"encoding/hex"
	"encoding/json"
	"reflect"
	"runtime/debug"
	"strconv"
	"strings"

	"github.com/nginx/kubernetes-ingress/internal/verifio"
	conf_v1 "github.com/nginx/kubernetes-ingress/pkg/apis/configuration/v1"
	"github.com/nginx/kubernetes-ingress/pkg/apis/configuration/validation"
	networking "k8s.io/api/networking/v1"
	metav1 "k8s.io/apimachinery/pkg/apis/meta/v1"
	"k8s.io/apimachinery/pkg/util/intstr"
)

// verifRng is a SplitMix64 stream: every choice of a generated object derives from one seed.
type verifRng struct{ s uint64 }

func (r *verifRng) next() uint64 {
	r.s += 0x9E3779B97F4A7C15
	z := r.s
	z = (z ^ (z >> 30)) * 0xBF58476D1CE4E5B9
	z = (z ^ (z >> 27)) * 0x94D049BB133111EB
	return z ^ (z >> 31)
}
func (r *verifRng) below(n int) int         { return int(r.next() % uint64(n)) }
func (r *verifRng) pick(xs []string) string { return xs[r.below(len(xs))] }

var verifPools = map[string][]string{
	"host": {"a.ex", "b.ex", "a.ex", "*.ex"}, "path": {"/", "/a", "/b", "/a/b", "~ ^/r", "=/e", ""}, "service": {"s1", "s2", "s1"},
	"name": {"u1", "u2", "u1"}, "pass": {"u1", "u2", "u1"}, "upstream": {"u1", "u2"}, "secret": {"k1", "k5", "k4", "missing"},
	"route": {"d/r1", "r1", "e/r1"}, "lbmethod": {"round_robin", "least_conn", "ip_hash", "random two least_conn", "hash $request_uri consistent", "", "", ""}, "loadbalancingmethod": {"", "least_conn", "hash $remote_addr", ""}, "nextupstream": {"", "error timeout", "http_502"}, "grpcservice": {""}, "statusmatch2": {""},
	"type": {"", "http", "grpc"}, "protocol": {"TCP", "UDP", "TLS_PASSTHROUGH", "HTTP"}, "ingressclass": {"nginx", "nginx", ""},
	"scheme": {"http", "https", "${scheme}"}, "url": {"http://x.ex/a", "https://x.ex", "${scheme}://x.ex"}, "body": {"hello", ""},
	"value": {"v", "1", ""}, "header": {"X-A", "Host"}, "cookie": {"c"}, "argument": {"a"}, "variable": {"$request_method", "$x"},
	"rate": {"10r/s", "1r/m"}, "key": {"${binary_remote_addr}", "$x"}, "zonesize": {"10M", "1k"}, "realm": {"r"}, "token": {"$http_token", ""},
	"jwksuri": {"", "https://idp.ex/jwks"}, "keycache": {"", "1h"}, "dos": {"", "prot"}, "backup": {"", "s2"},
	"expires": {"1h", ""}, "domain": {".ex", ""}, "samesite": {"strict", "lax", ""}, "mandatory": {"true", "false", ""}, "persistent": {"true", ""},
	"statusmatch": {"200", "! 500", ""}, "match": {"", "200-399"}, "send": {"", "x"}, "expect": {"", "~ok"}, "sslciphers": {"", "HIGH"},
	"code": {"200", "301"}, "allow": {"10.0.0.0/8"}, "deny": {"10.0.0.1"},
}

var verifDurations = []string{"", "1s", "5m", "30s", ""}
var verifSizes = []string{"", "1m", "8k", "16k", ""}

func verifString(field string, r *verifRng) string {
	f := strings.ToLower(field)
	if r.below(60) == 0 { // rarely: a value that validation must refuse
		return r.pick([]string{"bad value", "-1", "$", "a b;", strings.Repeat("x", 70)})
	}
	if p, ok := verifPools[f]; ok {
		return r.pick(p)
	}
	switch {
	case strings.Contains(f, "timeout") || strings.Contains(f, "interval") || strings.Contains(f, "jitter") || strings.HasSuffix(f, "slowstart") || f == "delay" || strings.Contains(f, "time"):
		return r.pick(verifDurations)
	case strings.Contains(f, "size") || strings.Contains(f, "buffer"):
		return r.pick(verifSizes)
	case strings.Contains(f, "secret"):
		return r.pick(verifPools["secret"])
	case strings.Contains(f, "snippet"):
		return r.pick([]string{"", "", "", "", "add_header X 1;"})
	case strings.Contains(f, "service"):
		return r.pick(verifPools["service"])
	case strings.Contains(f, "path"):
		return r.pick(verifPools["path"])
	case strings.Contains(f, "host"):
		return r.pick(verifPools["host"])
	}
	return r.pick([]string{"", "x", "n1"})
}

// verifFill fills a value of any type with a shape-directed random choice: pointers are nil one time in three, slices have 0..2
// elements, strings and numbers come from small per-field pools that are mostly valid.
func verifFill(v reflect.Value, field string, r *verifRng, depth int) {
	switch v.Kind() {
	case reflect.Ptr:
		if depth > 9 || r.below(3) == 0 {
			return
		}
		v.Set(reflect.New(v.Type().Elem()))
		verifFill(v.Elem(), field, r, depth+1)
	case reflect.Struct:
		if v.Type() == reflect.TypeOf(intstr.IntOrString{}) {
			if r.below(2) == 0 {
				v.Set(reflect.ValueOf(intstr.FromInt(80)))
			} else {
				v.Set(reflect.ValueOf(intstr.FromString("http")))
			}
			return
		}
		for i := 0; i < v.NumField(); i++ {
			sf := v.Type().Field(i)
			if !sf.IsExported() || sf.Name == "TypeMeta" || sf.Name == "ObjectMeta" || sf.Name == "Status" {
				continue
			}
			verifFill(v.Field(i), sf.Name, r, depth+1)
		}
	case reflect.Slice:
		if depth > 9 {
			return
		}
		n := []int{0, 1, 1, 2}[r.below(4)]
		if v.Type().Elem().Kind() == reflect.Uint8 {
			return
		}
		s := reflect.MakeSlice(v.Type(), n, n)
		for i := 0; i < n; i++ {
			if s.Index(i).Kind() == reflect.Ptr { // a null list element is not admitted by the API server
				s.Index(i).Set(reflect.New(s.Index(i).Type().Elem()))
				verifFill(s.Index(i).Elem(), field, r, depth+1)
				continue
			}
			verifFill(s.Index(i), field, r, depth+1)
		}
		if n > 0 || r.below(2) == 0 {
			v.Set(s)
		}
	case reflect.Map:
		if v.Type().Key().Kind() == reflect.String && v.Type().Elem().Kind() == reflect.String && r.below(2) == 0 {
			m := reflect.MakeMap(v.Type())
			m.SetMapIndex(reflect.ValueOf("k").Convert(v.Type().Key()), reflect.ValueOf("v").Convert(v.Type().Elem()))
			v.Set(m)
		}
	case reflect.String:
		v.SetString(verifString(field, r))
	case reflect.Bool:
		v.SetBool(r.below(2) == 0)
	case reflect.Int, reflect.Int32, reflect.Int64, reflect.Int16, reflect.Int8:
		f := strings.ToLower(field)
		switch {
		case strings.Contains(f, "port") || f == "number":
			v.SetInt(int64([]int{80, 8080, 443, 80, 8080, 443, 80, 8080, 0, 65536}[r.below(10)]))
		case strings.Contains(f, "weight"):
			v.SetInt(int64([]int{50, 50, 100, 0, 99}[r.below(5)]))
		case f == "code":
			v.SetInt(int64([]int{200, 301, 404, 500, 302, 200, 0, 99}[r.below(8)]))
		case strings.Contains(f, "grpcstatus"):
			v.SetInt(0)
		default:
			v.SetInt(int64([]int{0, 1, 2, 10, 3, 0, 1, 2, 10, 3, 0, 1, -1}[r.below(13)]))
		}
	case reflect.Uint16, reflect.Uint32, reflect.Uint8, reflect.Uint64, reflect.Uint:
		v.SetUint(uint64([]int{80, 8080, 0, 80, 443}[r.below(5)]))
	}
}

var verifIngAnnotations = [][2]string{
	{"nginx.org/mergeable-ingress-type", "master"}, {"nginx.org/mergeable-ingress-type", "minion"}, {"nginx.org/mergeable-ingress-type", "bad"},
	{"nginx.org/ssl-services", "s1"}, {"nginx.org/grpc-services", "s1"}, {"nginx.org/websocket-services", "s2"}, {"nginx.org/rewrites", "serviceName=s1 rewrite=/x"},
	{"nginx.org/sticky-cookie-services", "serviceName=s1 srv_id"}, {"nginx.com/sticky-cookie-services", "serviceName=s1 srv_id expires=1h path=/x"},
	// free-form for the API server: every way one entry of a list annotation can be cut short or doubled
	{"nginx.com/sticky-cookie-services", "serviceName srv_id expires=1h path=/x"}, {"nginx.com/sticky-cookie-services", "serviceName"},
	{"nginx.com/sticky-cookie-services", "=s1 srv_id"}, {"nginx.com/sticky-cookie-services", "serviceName=s1 srv_id;serviceName"},
	{"nginx.com/sticky-cookie-services", ";"}, {"nginx.com/sticky-cookie-services", "serviceName= "}, {"nginx.org/rewrites", "serviceName rewrite=/"},
	{"nginx.org/rewrites", "serviceName=s1"}, {"nginx.org/rewrites", "rewrite=/x"}, {"nginx.com/slow-start", "s1"}, {"nginx.org/listen-ports", ","},
	{"nginx.com/health-checks", "yes"}, {"nginx.org/server-tokens", ""}, {"nginx.org/lb-method", " "}, {"nginx.com/jwt-token", "$"}, {"nginx.com/jwt-key", "k2"}, {"nginx.org/basic-auth-secret", "k1"}, {"nginx.org/listen-ports", "80,8080"},
	{"nginx.org/listen-ports-ssl", "443"}, {"nginx.org/server-snippets", "add_header X 1;"}, {"nginx.org/proxy-set-headers", "X-A: 1,X-B"}, {"nginx.org/path-regex", "case_sensitive"},
	{"nginx.org/use-cluster-ip", "true"}, {"nginx.com/health-checks", "true"}, {"nginx.org/limit-req-rate", "10r/s"}, {"nginx.org/hsts", "true"}, {"nginx.org/redirect-to-https", "true"},
	{"acme.cert-manager.io/http01-edit-in-place", "true"}, {"nginx.com/slow-start", "10s"}, {"nginx.org/lb-method", "ip_hash"}, {"nginx.org/server-tokens", "custom"},
}

// VerifCrash builds one shape-directed object of the given kind from the seed, delivers it (after a small valid world) through the
// real event handlers, queue and sync of a real controller, updates it once and deletes it. A panic anywhere is reported by the caller's recover.
// kv: kind=ing|vs|vsr|ts|pol  seed=<n>  plus=0|1  cm=0|1 (cert-manager support)  dump=0|1 (also print the object as hex-encoded JSON)
func VerifCrash(kv map[string]string) string {
	seed, _ := strconv.ParseUint(kv["seed"], 10, 64)
	r := &verifRng{s: seed*0x9E3779B97F4A7C15 + 12345}
	w, err := verifNewLbc(kv["plus"] == "1", true)
	if err != nil {
		return "setup-error"
	}
	// the number of controller replicas the leader has counted (0 = not known yet): scaled rate limits divide by it
	w.lbc.configurator.SetIngressControllerReplicas(int(seed % 3))
	if kv["cm"] == "1" { // cert-manager support: challenge Ingresses are attached to the VirtualServer that owns their host
		w.lbc.configuration.isCertManagerEnabled = true
	}
	// a GlobalConfiguration with a TCP and a UDP listener, so that TransportServers on custom listeners are generated too
	gc := &conf_v1.GlobalConfiguration{ObjectMeta: metav1.ObjectMeta{Namespace: "nginx-ingress", Name: "nginx-configuration"}}
	gc.Spec.Listeners = []conf_v1.Listener{{Name: "tcp1", Port: 5000, Protocol: "TCP"}, {Name: "udp1", Port: 5353, Protocol: "UDP"}}
	_, _, _ = w.lbc.configuration.AddOrUpdateGlobalConfiguration(gc)
	for _, m := range []string{"+s1/0", "+s2/0", "+e1.0/s1/a+b", "+e2.0/s2/a", "+k1/htpasswd/0", "+k2/jwk/0", "+k4/ca/0", "+k5/tls/0", "+p1/basic/k1/0", "+v9/s1/0"} {
		w.apply(m)
	}
	w.drain()
	meta := func(name string) metav1.ObjectMeta {
		return metav1.ObjectMeta{Namespace: "d", Name: name, Generation: 1, Labels: map[string]string{}, Annotations: map[string]string{}}
	}
	var objs []interface{}
	nsi := w.nsi()
	deliver := func(kind string, obj interface{}, update bool) {
		switch o := obj.(type) {
		case *networking.Ingress:
			if update {
				_ = nsi.ingressLister.Store.Update(o)
			} else {
				_ = nsi.ingressLister.Store.Add(o)
			}
		case *conf_v1.VirtualServer:
			_ = nsi.virtualServerLister.Add(o)
		case *conf_v1.VirtualServerRoute:
			_ = nsi.virtualServerRouteLister.Add(o)
		case *conf_v1.TransportServer:
			_ = nsi.transportServerLister.Add(o)
		case *conf_v1.Policy:
			_ = nsi.policyLister.Add(o)
		}
		w.lbc.AddSyncQueue(obj)
		w.drain()
	}
	remove := func(obj interface{}) {
		switch o := obj.(type) {
		case *networking.Ingress:
			_ = nsi.ingressLister.Store.Delete(o)
		case *conf_v1.VirtualServer:
			_ = nsi.virtualServerLister.Delete(o)
		case *conf_v1.VirtualServerRoute:
			_ = nsi.virtualServerRouteLister.Delete(o)
		case *conf_v1.TransportServer:
			_ = nsi.transportServerLister.Delete(o)
		case *conf_v1.Policy:
			_ = nsi.policyLister.Delete(o)
		}
		w.lbc.AddSyncQueue(obj)
		w.drain()
	}
	switch kv["kind"] {
	case "ing":
		n := 1 + r.below(2)
		for i := 0; i < n; i++ {
			ing := &networking.Ingress{ObjectMeta: meta("x" + strconv.Itoa(i))}
			verifFill(reflect.ValueOf(&ing.Spec).Elem(), "Spec", r, 0)
			cls := "nginx"
			if r.below(8) != 0 {
				ing.Spec.IngressClassName = &cls
			}
			for k := r.below(4); k > 0; k-- {
				a := verifIngAnnotations[r.below(len(verifIngAnnotations))]
				ing.Annotations[a[0]] = a[1]
			}
			if r.below(4) == 0 {
				ing.Labels["acme.cert-manager.io/http01-solver"] = "true"
				if r.below(2) == 0 { // the label together with a mergeable type
					ing.Annotations["nginx.org/mergeable-ingress-type"] = []string{"master", "minion"}[r.below(2)]
					if len(ing.Spec.Rules) > 1 {
						ing.Spec.Rules = ing.Spec.Rules[:1]
					}
					if len(ing.Spec.Rules) == 1 && ing.Annotations["nginx.org/mergeable-ingress-type"] == "master" && r.below(2) == 0 {
						ing.Spec.Rules[0].HTTP = nil
					}
					ing.Spec.TLS = nil
				}
				if len(ing.Spec.Rules) > 0 && r.below(2) == 0 {
					ing.Spec.Rules[0].Host = "v9.ex" // the host of a served VirtualServer
				}
			} else if len(ing.Spec.Rules) > 0 && r.below(4) == 0 {
				// an ordinary Ingress that claims the host of a served VirtualServer (it may get the solver label later, by an edit)
				ing.Spec.Rules[0].Host = "v9.ex"
			}
			verifRepairIngress(ing, r)
			objs = append(objs, ing)
		}
	case "vs":
		vs := &conf_v1.VirtualServer{ObjectMeta: meta("x0")}
		verifFill(reflect.ValueOf(&vs.Spec).Elem(), "Spec", r, 0)
		verifRepairVS(vs, r)
		objs = append(objs, vs)
		if r.below(2) == 0 {
			vsr := &conf_v1.VirtualServerRoute{ObjectMeta: meta("r1")}
			verifFill(reflect.ValueOf(&vsr.Spec).Elem(), "Spec", r, 0)
			verifRepairVSR(vsr, vs.Spec.Host, "/sub", r)
			vs.Spec.Routes = append(vs.Spec.Routes, conf_v1.Route{Path: verifRefPath(vsr, r), Route: "d/r1"})
			objs = append(objs, vsr)
		}
	case "vsr":
		vsr := &conf_v1.VirtualServerRoute{ObjectMeta: meta("r1")}
		verifFill(reflect.ValueOf(&vsr.Spec).Elem(), "Spec", r, 0)
		verifRepairVSR(vsr, "v9.ex", "/sub", r)
		objs = append(objs, vsr)
		objs = append(objs, func() *conf_v1.VirtualServer {
			v := verifLbcVS("x0", "s1", 0, nil)
			v.Spec.Host = "v9x.ex"
			vsr.Spec.Host = "v9x.ex"
			v.Spec.Routes = append(v.Spec.Routes, conf_v1.Route{Path: verifRefPath(vsr, r), Route: "d/r1"})
			return v
		}())
	case "ts":
		ts := &conf_v1.TransportServer{ObjectMeta: meta("x0")}
		verifFill(reflect.ValueOf(&ts.Spec).Elem(), "Spec", r, 0)
		verifRepairTS(ts, r)
		objs = append(objs, ts)
	case "pol":
		p := &conf_v1.Policy{ObjectMeta: meta("px")}
		// one policy kind at a time, as the CRD demands
		verifFill(reflect.ValueOf(&p.Spec).Elem(), "Spec", r, 0)
		verifRepairPolicy(p, r)
		objs = append(objs, p)
		vs := verifLbcVS("x0", "s1", 0, map[string]string{"pol": "px"})
		objs = append(objs, vs)
	default:
		return "bad-kind"
	}
	if kv["why"] == "1" {
		var out []string
		for _, o := range objs {
			switch x := o.(type) {
			case *conf_v1.VirtualServer:
				if e := validation.NewVirtualServerValidator(validation.IsPlus(kv["plus"] == "1")).ValidateVirtualServer(x); e != nil {
					out = append(out, strings.ReplaceAll(e.Error(), " ", "_"))
				}
			case *conf_v1.VirtualServerRoute:
				if e := validation.NewVirtualServerValidator(validation.IsPlus(kv["plus"] == "1")).ValidateVirtualServerRoute(x); e != nil {
					out = append(out, strings.ReplaceAll(e.Error(), " ", "_"))
				}
			case *conf_v1.TransportServer:
				if e := validation.NewTransportServerValidator(true, false, kv["plus"] == "1").ValidateTransportServer(x); e != nil {
					out = append(out, strings.ReplaceAll(e.Error(), " ", "_"))
				}
			case *conf_v1.Policy:
				if e := validation.ValidatePolicy(x, kv["plus"] == "1", false, false); e != nil {
					out = append(out, strings.ReplaceAll(e.Error(), " ", "_"))
				}
			case *networking.Ingress:
				if e := validateIngress(x, kv["plus"] == "1", false, false, false, false).ToAggregate(); e != nil {
					out = append(out, strings.ReplaceAll(e.Error(), " ", "_"))
				}
			}
		}
		return "why=" + strings.Join(out, "|")
	}
	if kv["dump"] == "1" {
		var parts []string
		for _, o := range objs {
			b, _ := json.Marshal(o)
			parts = append(parts, reflect.TypeOf(o).Elem().Name()+":"+hex.EncodeToString(b))
		}
		return "obj=" + strings.Join(parts, ",")
	}
	// metadata-only edits of the same objects (same UID, generation and annotations): the cert-manager solver label switched on or
	// off — labels decide which validation applies, and nothing else tells the controller that the object changed
	var edits []interface{}
	if kv["kind"] == "ing" && r.below(2) == 0 {
		for _, o := range objs {
			if ing, ok := o.(*networking.Ingress); ok {
				e := ing.DeepCopy()
				if e.Labels == nil {
					e.Labels = map[string]string{}
				}
				if isChallengeIngress(e) {
					delete(e.Labels, "acme.cert-manager.io/http01-solver")
				} else {
					e.Labels["acme.cert-manager.io/http01-solver"] = "true"
				}
				edits = append(edits, e)
			}
		}
	}
	var shapes []string
	for _, o := range append(append([]interface{}{}, objs...), edits...) {
		if ing, ok := o.(*networking.Ingress); ok {
			shapes = append(shapes, verifIngShape(ing))
		}
	}
	shape := "_"
	if len(shapes) > 0 {
		shape = strings.Join(shapes, "+")
	}
	verdict := func() (res string) {
		defer func() {
			if p := recover(); p != nil {
				res = "PANIC@" + verifio.PanicSite(debug.Stack())
			}
		}()
		for _, o := range objs {
			deliver(kv["kind"], o, false)
		}
		for _, o := range edits {
			deliver(kv["kind"], o, true)
		}
		// an endpoints change and a re-sync of everything exercise the regeneration paths with the object in place
		w.apply("+e1.0/s1/a")
		w.drain()
		w.apply("+c/1")
		w.drain()
		for _, o := range objs {
			remove(o)
		}
		for _, e := range w.out {
			if strings.HasPrefix(e, "W|conf/vs_d_x") || strings.HasPrefix(e, "W|conf/d-x") || strings.HasPrefix(e, "W|stream/ts_d_x") {
				return "served"
			}
		}
		return "rejected"
	}()
	return verdict + "#ishape=" + shape
}

func verifBackendShape(b *networking.IngressBackend) string {
	switch {
	case b.Service != nil && b.Resource != nil:
		return "B"
	case b.Resource != nil:
		return "R"
	case b.Service == nil:
		return "N"
	case b.Service.Port.Name != "":
		return "S1"
	}
	return "S0"
}

// verifIngShape: c<challenge>;<r|M|m>;t<#tls>;d<default backend or ->;rule,rule  with rule = n (http nil) | e (no paths) | b.b.b
func verifIngShape(ing *networking.Ingress) string {
	c := "c0"
	if isChallengeIngress(ing) {
		c = "c1"
	}
	m := "r"
	if isMaster(ing) {
		m = "M"
	} else if isMinion(ing) {
		m = "m"
	}
	d := "-"
	if ing.Spec.DefaultBackend != nil {
		d = verifBackendShape(ing.Spec.DefaultBackend)
	}
	var rules []string
	for _, r := range ing.Spec.Rules {
		switch {
		case r.HTTP == nil:
			rules = append(rules, "n")
		case len(r.HTTP.Paths) == 0:
			rules = append(rules, "e")
		default:
			var ps []string
			for _, p := range r.HTTP.Paths {
				ps = append(ps, verifBackendShape(&p.Backend))
			}
			rules = append(rules, strings.Join(ps, "."))
		}
	}
	return c + ";" + m + ";t" + strconv.Itoa(len(ing.Spec.TLS)) + ";d" + d + ";" + strings.Join(rules, ",")
}

// verifRefPath picks the path under which a VirtualServer route delegates to vsr: mostly the prefix "/sub"; one time in three an
// exact or regex path, for which the route must have exactly one subroute with that very path — half of the time the route's
// subroutes are left as they are (none, one, several; the reference is then invalid and must be reported, not crash), otherwise
// its first subroute is given the path.
func verifRefPath(vsr *conf_v1.VirtualServerRoute, r *verifRng) string {
	if r.below(3) != 0 {
		return "/sub"
	}
	p := []string{"=/sub/e", "~ ^/sub/r"}[r.below(2)]
	if r.below(2) == 0 && len(vsr.Spec.Subroutes) > 0 {
		vsr.Spec.Subroutes = vsr.Spec.Subroutes[:1]
		vsr.Spec.Subroutes[0].Path = p
	}
	return p
}
