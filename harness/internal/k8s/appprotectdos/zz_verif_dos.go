//go:build verif

package appprotectdos

import (
	"fmt"
	"sort"
	"strings"

	"github.com/nginx/kubernetes-ingress/pkg/apis/dos/v1beta1"
	metav1 "k8s.io/apimachinery/pkg/apis/meta/v1"
	"k8s.io/apimachinery/pkg/apis/meta/v1/unstructured"
)

func verifU(kind, ns, name string, ok bool, fields ...string) *unstructured.Unstructured {
	u := &unstructured.Unstructured{Object: map[string]interface{}{}}
	u.SetKind(kind)
	u.SetNamespace(ns)
	u.SetName(name)
	spec := map[string]interface{}{}
	if ok {
		for _, f := range fields {
			spec[f] = map[string]interface{}{}
		}
	}
	if ok || kind != "APDosPolicy" {
		u.Object["spec"] = spec // an APDosPolicy without spec is invalid; an APDosLogConf without spec.filter is invalid
	}
	return u
}

func verifB(b bool) string {
	if b {
		return "1"
	}
	return "0"
}

func verifOut(cs []Change, ps []Problem) string {
	var c, p []string
	for _, x := range cs {
		op := "U"
		if x.Op == Delete {
			op = "D"
		}
		k := "?"
		switch r := x.Resource.(type) {
		case *DosPolicyEx:
			k = "pol:" + r.Obj.GetNamespace() + "/" + r.Obj.GetName()
		case *DosLogConfEx:
			k = "log:" + r.Obj.GetNamespace() + "/" + r.Obj.GetName()
		case *DosProtectedResourceEx:
			k = "prot:" + r.Obj.Namespace + "/" + r.Obj.Name
		}
		c = append(c, op+k)
	}
	for _, x := range ps {
		k := "?"
		switch o := x.Object.(type) {
		case *unstructured.Unstructured:
			k = o.GetKind() + ":" + o.GetNamespace() + "/" + o.GetName()
		case *v1beta1.DosProtectedResource:
			k = "prot:" + o.Namespace + "/" + o.Name
		}
		p = append(p, k)
	}
	sort.Strings(c)
	sort.Strings(p)
	return fmt.Sprintf("CH=%s#PR=%s", strings.Join(c, "+"), strings.Join(p, "+"))
}

// VerifDos runs a history on the real appprotectdos.Configuration.
//
//	pol|ns|name|ok|bad     log|ns|name|ok|bad     prot|ns|name|form|polref|logref   (form ok|bad ; refs _ = none)
//	dpol|key  dlog|key  dprot|key      get|parentNs|ref   (GetValidDosEx)
func VerifDos(kv map[string]string) string {
	ci := NewConfiguration(true)
	var out []string
	for _, op := range strings.Split(kv["ops"], ";") {
		f := strings.Split(op, "|")
		o := ""
		switch f[0] {
		case "pol":
			cs, ps := ci.AddOrUpdatePolicy(verifU("APDosPolicy", f[1], f[2], f[3] == "ok", "mitigation_mode"))
			o = verifOut(cs, ps)
		case "log":
			cs, ps := ci.AddOrUpdateLogConf(verifU("APDosLogConf", f[1], f[2], f[3] == "ok", "content", "filter"))
			o = verifOut(cs, ps)
		case "prot":
			p := &v1beta1.DosProtectedResource{ObjectMeta: metav1.ObjectMeta{Namespace: f[1], Name: f[2]}}
			p.Spec.Name = "app"
			if f[3] != "ok" {
				p.Spec.Name = ""
			}
			if f[4] != "_" {
				p.Spec.ApDosPolicy = f[4]
			}
			if f[5] != "_" {
				p.Spec.DosSecurityLog = &v1beta1.DosSecurityLog{Enable: true, ApDosLogConf: f[5], DosLogDest: "stderr"}
			}
			cs, ps := ci.AddOrUpdateDosProtectedResource(p)
			o = verifOut(cs, ps)
		case "dpol":
			cs, ps := ci.DeletePolicy(f[1])
			o = verifOut(cs, ps)
		case "dlog":
			cs, ps := ci.DeleteLogConf(f[1])
			o = verifOut(cs, ps)
		case "dprot":
			cs, ps := ci.DeleteProtectedResource(f[1])
			o = verifOut(cs, ps)
		case "get":
			ex, err := ci.GetValidDosEx(f[1], f[2])
			if err != nil {
				o = "G=0"
			} else {
				pol, lg := "_", "_"
				if ex.DosPolicy != nil {
					pol = ex.DosPolicy.GetNamespace() + "/" + ex.DosPolicy.GetName()
				}
				if ex.DosLogConf != nil {
					lg = ex.DosLogConf.GetNamespace() + "/" + ex.DosLogConf.GetName()
				}
				o = fmt.Sprintf("G=1:%s/%s:%s:%s", ex.DosProtected.Namespace, ex.DosProtected.Name, pol, lg)
			}
		default:
			o = "bad-op"
		}
		out = append(out, o)
	}
	return strings.Join(out, ";;")
}
