//go:build verif

package appprotect

import (
	"fmt"
	"io"
	"log/slog"
	"sort"
	"strconv"
	"strings"
	"time"

	metav1 "k8s.io/apimachinery/pkg/apis/meta/v1"
	"k8s.io/apimachinery/pkg/apis/meta/v1/unstructured"
	"k8s.io/apimachinery/pkg/types"
)

var verifLog = slog.New(slog.NewTextHandler(io.Discard, nil))

func verifTime(min string) string {
	n, _ := strconv.Atoi(min)
	return time.Date(2020, 1, 1, 0, 0, 0, 0, time.UTC).Add(time.Duration(n) * time.Minute).Format(time.RFC3339)
}

func verifObj(kind, ns, name, uid, ts string) *unstructured.Unstructured {
	u := &unstructured.Unstructured{Object: map[string]interface{}{}}
	u.SetAPIVersion("appprotect.f5.com/v1beta1")
	u.SetKind(kind)
	u.SetNamespace(ns)
	u.SetName(name)
	u.SetUID(types.UID(uid))
	t, _ := strconv.Atoi(ts)
	u.SetCreationTimestamp(metav1.NewTime(time.Unix(1700000000+int64(t), 0)))
	return u
}

func verifKey(u *unstructured.Unstructured) string { return u.GetNamespace() + "/" + u.GetName() }

func verifErrCode(msg string) string {
	switch {
	case msg == "":
		return "-"
	case msg == failedValidationErrorMsg || strings.Contains(msg, "Error validating") || strings.Contains(msg, "error validating"):
		return "validation"
	case msg == missingUserSigErrorMsg:
		return "missing-sig"
	case msg == duplicatedTagsErrorMsg:
		return "dup-tag"
	case msg == invalidTimestampErrorMsg || strings.Contains(msg, "Error creating time requirements") || strings.Contains(msg, "Error Parsing time"):
		return "bad-ts"
	}
	return "other:" + strings.ReplaceAll(msg, " ", "_")
}

func b01(b bool) string {
	if b {
		return "1"
	}
	return "0"
}

func verifState(ci *ConfigurationImpl) string {
	var s, p, l []string
	for k, v := range ci.UserSigs {
		s = append(s, fmt.Sprintf("%s:%s:%s", k, b01(v.IsValid), verifErrCode(v.ErrorMsg)))
	}
	for k, v := range ci.Policies {
		p = append(p, fmt.Sprintf("%s:%s:%s", k, b01(v.IsValid), verifErrCode(v.ErrorMsg)))
	}
	for k, v := range ci.LogConfs {
		l = append(l, fmt.Sprintf("%s:%s:%s", k, b01(v.IsValid), verifErrCode(v.ErrorMsg)))
	}
	sort.Strings(s)
	sort.Strings(p)
	sort.Strings(l)
	return fmt.Sprintf("S=%s#P=%s#L=%s", strings.Join(s, ","), strings.Join(p, ","), strings.Join(l, ","))
}

func verifKeys(us []*unstructured.Unstructured) string {
	var out []string
	for _, u := range us {
		out = append(out, verifKey(u))
	}
	sort.Strings(out)
	return strings.Join(out, "+")
}

func verifProblems(ps []Problem) string {
	var out []string
	for _, p := range ps {
		out = append(out, verifKey(p.Object)+"~"+verifErrCode(p.Message))
	}
	sort.Strings(out)
	return strings.Join(out, "+")
}

func verifChanges(cs []Change) string {
	var out []string
	for _, c := range cs {
		op := "U"
		if c.Op == Delete {
			op = "D"
		}
		k := "?"
		switch r := c.Resource.(type) {
		case *PolicyEx:
			k = verifKey(r.Obj)
		case *LogConfEx:
			k = verifKey(r.Obj)
		case *UserSigEx:
			k = verifKey(r.Obj)
		}
		out = append(out, op+k)
	}
	sort.Strings(out)
	return strings.Join(out, "+")
}

// VerifAP runs a history on the real ConfigurationImpl. `rep` repeats it to exercise Go map orders.
//
//	sig|ns|name|uid|ts|tag|rev|form      form ok|nosigs|badts ; rev - or minutes ; tag _ = none
//	pol|ns|name|form|reqs                form ok|nopolicy|badts ; reqs tag:min:max + ...  (- = absent)
//	log|ns|name|form                     form ok|bad
//	dsig|key  dpol|key  dlog|key
//	get|kind|key                         GetAppResource (APPolicy|APLogConf|APUserSig)
func VerifAP(kv map[string]string) string {
	rep, _ := strconv.Atoi(kv["rep"])
	if rep < 1 {
		rep = 1
	}
	first := ""
	for i := 0; i < rep; i++ {
		res := verifAPOnce(kv["ops"])
		if i == 0 {
			first = res
		} else if res != first {
			return "NONDET " + first + " <> " + res
		}
	}
	return first
}

func verifAPOnce(opss string) string {
	ci := newConfigurationImpl(verifLog)
	var out []string
	for _, op := range strings.Split(opss, ";") {
		f := strings.Split(op, "|")
		o := ""
		switch f[0] {
		case "sig":
			u := verifObj("APUserSig", f[1], f[2], f[3], f[4])
			spec := map[string]interface{}{}
			if f[7] != "nosigs" {
				spec["signatures"] = []interface{}{map[string]interface{}{"name": "s"}}
			}
			if f[5] != "_" {
				spec["tag"] = f[5]
			}
			if f[7] == "badts" {
				spec["revisionDatetime"] = "not-a-time"
			} else if f[6] != "-" {
				spec["revisionDatetime"] = verifTime(f[6])
			}
			u.Object["spec"] = spec
			ch, ps := ci.AddOrUpdateUserSig(u)
			o = fmt.Sprintf("PD=%s#PA=%s#US=%s#PR=%s", verifKeys(ch.PolicyDeletions), verifKeys(ch.PolicyAddsOrUpdates), verifKeys(ch.UserSigs), verifProblems(ps))
		case "dsig":
			ch, ps := ci.DeleteUserSig(f[1])
			o = fmt.Sprintf("PD=%s#PA=%s#US=%s#PR=%s", verifKeys(ch.PolicyDeletions), verifKeys(ch.PolicyAddsOrUpdates), verifKeys(ch.UserSigs), verifProblems(ps))
		case "pol":
			u := verifObj("APPolicy", f[1], f[2], "p-"+f[1]+"-"+f[2], "0")
			spec := map[string]interface{}{}
			if f[3] != "nopolicy" {
				pol := map[string]interface{}{"name": "p"}
				var reqs []interface{}
				for _, r := range strings.Split(f[4], "+") {
					if r == "" || r == "_" {
						continue
					}
					q := strings.Split(r, ":")
					m := map[string]interface{}{"tag": q[0]}
					if q[1] != "-" {
						m["minRevisionDatetime"] = verifTime(q[1])
					}
					if q[2] != "-" {
						m["maxRevisionDatetime"] = verifTime(q[2])
					}
					if f[3] == "badts" {
						m["minRevisionDatetime"] = "garbage"
					}
					reqs = append(reqs, m)
				}
				if reqs != nil {
					pol["signature-requirements"] = reqs
				}
				spec["policy"] = pol
			}
			u.Object["spec"] = spec
			cs, ps := ci.AddOrUpdatePolicy(u)
			o = fmt.Sprintf("CH=%s#PR=%s", verifChanges(cs), verifProblems(ps))
		case "dpol":
			cs, ps := ci.DeletePolicy(f[1])
			o = fmt.Sprintf("CH=%s#PR=%s", verifChanges(cs), verifProblems(ps))
		case "log":
			u := verifObj("APLogConf", f[1], f[2], "l-"+f[1]+"-"+f[2], "0")
			if f[3] == "ok" {
				u.Object["spec"] = map[string]interface{}{"content": map[string]interface{}{}, "filter": map[string]interface{}{}}
			} else {
				u.Object["spec"] = map[string]interface{}{"content": map[string]interface{}{}}
			}
			cs, ps := ci.AddOrUpdateLogConf(u)
			o = fmt.Sprintf("CH=%s#PR=%s", verifChanges(cs), verifProblems(ps))
		case "dlog":
			cs, ps := ci.DeleteLogConf(f[1])
			o = fmt.Sprintf("CH=%s#PR=%s", verifChanges(cs), verifProblems(ps))
		case "get":
			_, err := ci.GetAppResource(f[1], f[2])
			o = "G=" + b01(err == nil)
		default:
			o = "bad-op"
		}
		out = append(out, o+"#"+verifState(ci))
	}
	return strings.Join(out, ";;")
}
