//go:build verif

package k8s

import (
	"bytes"
	"context"
	"encoding/hex"
	"encoding/json"
	"fmt"
	"os"
	"path/filepath"
	"reflect"
	"regexp"
	"sort"
	"strconv"
	"strings"
	"sync"

	"github.com/nginx/kubernetes-ingress/internal/configs"
	"github.com/nginx/kubernetes-ingress/internal/k8s/secrets"
	nl "github.com/nginx/kubernetes-ingress/internal/logger"
	"github.com/nginx/kubernetes-ingress/internal/metrics/collectors"
	"github.com/nginx/kubernetes-ingress/internal/verifio"
	conf_v1 "github.com/nginx/kubernetes-ingress/pkg/apis/configuration/v1"
	"github.com/nginx/kubernetes-ingress/pkg/apis/configuration/validation"
	dos_v1beta1 "github.com/nginx/kubernetes-ingress/pkg/apis/dos/v1beta1"
	conf_fake "github.com/nginx/kubernetes-ingress/pkg/client/clientset/versioned/fake"
	api_v1 "k8s.io/api/core/v1"
	discovery_v1 "k8s.io/api/discovery/v1"
	networking "k8s.io/api/networking/v1"
	metav1 "k8s.io/apimachinery/pkg/apis/meta/v1"
	"k8s.io/apimachinery/pkg/apis/meta/v1/unstructured"
	"k8s.io/apimachinery/pkg/runtime"
	"k8s.io/apimachinery/pkg/types"
	"k8s.io/apimachinery/pkg/util/intstr"
	k8svalidation "k8s.io/apimachinery/pkg/util/validation"
	k8syaml "k8s.io/apimachinery/pkg/util/yaml"
	dynfake "k8s.io/client-go/dynamic/fake"
	"k8s.io/client-go/kubernetes/fake"
	"k8s.io/client-go/tools/cache"
	"k8s.io/client-go/tools/record"
)

// This file drives the whole pipeline  validate -> arbitrate -> create extended resources -> generate -> render
// through a real LoadBalancerController (all features on, snippets off) whose Configurator writes to the recording
// nginx.Manager, for C06 (one string field of one fixture replaced by a payload) and C07 (generated resource sets).

func verifHome() string {
	if h := os.Getenv("VERIF_HOME"); h != "" {
		return h
	}
	return "/verif"
}

// verifNewFullLbc: every feature that changes validation or templates is on; snippets are off.
func verifNewFullLbc(plus bool) (*verifLbcWorld, error) {
	cnf, rm, err := configs.VerifNewRecConfigurator(plus, false, true)
	if err != nil {
		return nil, err
	}
	ctx := nl.ContextWithLogger(context.Background(), verifLogger)
	lbc := NewLoadBalancerController(NewLoadBalancerControllerInput{
		KubeClient:                   fake.NewSimpleClientset(),
		ConfClient:                   conf_fake.NewSimpleClientset(),
		DynClient:                    dynfake.NewSimpleDynamicClient(runtime.NewScheme()),
		Recorder:                     &record.FakeRecorder{},
		LoggerContext:                ctx,
		Namespace:                    []string{""},
		SecretNamespace:              []string{""},
		NginxConfigurator:            cnf,
		IsNginxPlus:                  plus,
		AppProtectEnabled:            plus,
		AppProtectDosEnabled:         true,
		IngressClass:                 "nginx",
		ControllerNamespace:          "nginx-ingress",
		ConfigMaps:                   "nginx-ingress/nginx-config",
		AreCustomResourcesEnabled:    true,
		EnableOIDC:                   plus,
		InternalRoutesEnabled:        true,
		CertManagerEnabled:           false,
		ExternalDNSEnabled:           false,
		SnippetsEnabled:              false,
		MetricsCollector:             collectors.NewControllerFakeCollector(),
		GlobalConfigurationValidator: validation.NewGlobalConfigurationValidator(map[int]bool{}),
		TransportServerValidator:     validation.NewTransportServerValidator(true, false, plus),
		VirtualServerValidator: validation.NewVirtualServerValidator(validation.IsPlus(plus), validation.IsDosEnabled(true),
			validation.IsCertManagerEnabled(true), validation.IsExternalDNSEnabled(true)),
		IsTLSPassthroughEnabled: true,
	})
	return &verifLbcWorld{lbc: lbc, rm: rm, plus: plus, dssl: true}, nil
}

// ---------------------------------------------------------------- fixtures

type verifFx struct {
	File     string
	Kind     string // ingress | vs | vsr | ts | policy
	PlusOnly bool
	Raw      []byte
}

var (
	verifFxOnce sync.Once
	verifFxs    []*verifFx
	verifFxErr  error
)

func verifFixtures() ([]*verifFx, error) {
	verifFxOnce.Do(func() {
		dir := filepath.Join(verifHome(), "harness", "fixtures", "c06")
		ents, err := os.ReadDir(dir)
		if err != nil {
			verifFxErr = err
			return
		}
		for _, e := range ents {
			n := e.Name()
			if !strings.HasSuffix(n, ".yaml") || strings.HasPrefix(n, "_") {
				continue
			}
			raw, err := os.ReadFile(filepath.Join(dir, n))
			if err != nil {
				verifFxErr = err
				return
			}
			kind := strings.SplitN(n, "-", 2)[0]
			switch kind {
			case "ingress", "vs", "vsr", "ts", "policy":
			default:
				continue
			}
			verifFxs = append(verifFxs, &verifFx{File: n, Kind: kind, PlusOnly: strings.HasSuffix(n, ".plus.yaml"), Raw: raw})
		}
		sort.Slice(verifFxs, func(i, j int) bool { return verifFxs[i].File < verifFxs[j].File })
	})
	return verifFxs, verifFxErr
}

// decode returns a fresh typed object of the fixture.
func (f *verifFx) decode() (interface{}, error) {
	var obj interface{}
	switch f.Kind {
	case "ingress":
		obj = &networking.Ingress{}
	case "vs":
		obj = &conf_v1.VirtualServer{}
	case "vsr":
		obj = &conf_v1.VirtualServerRoute{}
	case "ts":
		obj = &conf_v1.TransportServer{}
	case "policy":
		obj = &conf_v1.Policy{}
	}
	js, err := k8syaml.ToJSON(f.Raw)
	if err != nil {
		return nil, fmt.Errorf("%s: %w", f.File, err)
	}
	dec := json.NewDecoder(bytes.NewReader(js))
	dec.DisallowUnknownFields()
	if err := dec.Decode(obj); err != nil {
		return nil, fmt.Errorf("%s: %w", f.File, err)
	}
	return obj, nil
}

// ---------------------------------------------------------------- string leaves by reflection

type verifLeaf struct {
	Path string
	Get  func() string
	Set  func(string)
}

func verifJSONName(sf reflect.StructField) string {
	tag := sf.Tag.Get("json")
	if i := strings.IndexByte(tag, ','); i >= 0 {
		tag = tag[:i]
	}
	if tag == "" {
		return strings.ToLower(sf.Name[:1]) + sf.Name[1:]
	}
	return tag
}

// verifWalk collects every string-typed leaf below v (strings, elements of []string, values of map[string]string), named by JSON path.
func verifWalk(v reflect.Value, path string, out *[]verifLeaf) {
	switch v.Kind() {
	case reflect.Ptr, reflect.Interface:
		if !v.IsNil() {
			verifWalk(v.Elem(), path, out)
		}
	case reflect.Struct:
		if v.Type() == reflect.TypeOf(intstr.IntOrString{}) || v.Type() == reflect.TypeOf(metav1.Time{}) || v.Type() == reflect.TypeOf(metav1.Duration{}) {
			return
		}
		for i := 0; i < v.NumField(); i++ {
			sf := v.Type().Field(i)
			if !sf.IsExported() || sf.Name == "TypeMeta" || sf.Name == "Status" {
				continue
			}
			name := verifJSONName(sf)
			if sf.Name == "ObjectMeta" {
				// only the annotations are user strings that reach the generator; names are DNS-1123 by the API server
				ann := v.Field(i).FieldByName("Annotations")
				verifWalk(ann, "metadata.annotations", out)
				continue
			}
			p := name
			if path != "" {
				p = path + "." + name
			}
			if sf.Anonymous && name == "" {
				p = path
			}
			verifWalk(v.Field(i), p, out)
		}
	case reflect.Slice:
		if v.Type().Elem().Kind() == reflect.Uint8 {
			return
		}
		for i := 0; i < v.Len(); i++ {
			verifWalk(v.Index(i), path+"["+strconv.Itoa(i)+"]", out)
		}
	case reflect.Map:
		if v.Type().Key().Kind() != reflect.String || v.Type().Elem().Kind() != reflect.String {
			return
		}
		keys := v.MapKeys()
		sort.Slice(keys, func(i, j int) bool { return keys[i].String() < keys[j].String() })
		for _, k := range keys {
			k := k
			m := v
			*out = append(*out, verifLeaf{Path: path + "[" + k.String() + "]",
				Get: func() string { return m.MapIndex(k).String() },
				Set: func(s string) { m.SetMapIndex(k, reflect.ValueOf(s).Convert(m.Type().Elem())) }})
		}
	case reflect.String:
		if v.CanSet() {
			vv := v
			*out = append(*out, verifLeaf{Path: path, Get: func() string { return vv.String() }, Set: func(s string) { vv.SetString(s) }})
		}
	}
}

func verifLeaves(obj interface{}) []verifLeaf {
	var out []verifLeaf
	verifWalk(reflect.ValueOf(obj), "", &out)
	return out
}

// verifTypePaths enumerates the type-level string paths of t (slices as [], map values as [*]).
func verifTypePaths(t reflect.Type, path string, depth int, out map[string]bool) {
	if depth > 14 {
		return
	}
	switch t.Kind() {
	case reflect.Ptr:
		verifTypePaths(t.Elem(), path, depth+1, out)
	case reflect.Struct:
		if t == reflect.TypeOf(intstr.IntOrString{}) || t == reflect.TypeOf(metav1.Time{}) || t == reflect.TypeOf(metav1.Duration{}) {
			return
		}
		for i := 0; i < t.NumField(); i++ {
			sf := t.Field(i)
			if !sf.IsExported() || sf.Name == "TypeMeta" || sf.Name == "Status" || sf.Name == "ObjectMeta" {
				continue
			}
			p := verifJSONName(sf)
			if path != "" {
				p = path + "." + p
			}
			verifTypePaths(sf.Type, p, depth+1, out)
		}
	case reflect.Slice:
		if t.Elem().Kind() != reflect.Uint8 {
			verifTypePaths(t.Elem(), path+"[]", depth+1, out)
		}
	case reflect.Map:
		if t.Key().Kind() == reflect.String && t.Elem().Kind() == reflect.String {
			out[path+"[*]"] = true
		}
	case reflect.String:
		out[path] = true
	}
}

func verifGeneralise(path string) string {
	var b strings.Builder
	in := false
	mapKey := false
	for i := 0; i < len(path); i++ {
		c := path[i]
		switch {
		case c == '[':
			in = true
			mapKey = false
			b.WriteByte('[')
		case c == ']':
			in = false
			if mapKey {
				b.WriteByte('*')
			}
			b.WriteByte(']')
		case in:
			if c < '0' || c > '9' {
				mapKey = true
			}
		default:
			b.WriteByte(c)
		}
	}
	return b.String()
}

// ---------------------------------------------------------------- acceptance (what the API server and the controller's validators admit)

func verifHostAdmitted(h string) bool {
	if strings.HasPrefix(h, "*.") {
		return len(k8svalidation.IsWildcardDNS1123Subdomain(h)) == 0
	}
	return len(k8svalidation.IsDNS1123Subdomain(h)) == 0
}

// verifK8sAdmitIngress is the part of the API server's own Ingress validation that constrains strings (k8s.io/kubernetes
// pkg/apis/networking/validation): hosts, service names, port names, secret names, class name, path shape per path type.
func verifK8sAdmitIngress(ing *networking.Ingress) string {
	if ing.Spec.IngressClassName != nil && len(k8svalidation.IsDNS1123Subdomain(*ing.Spec.IngressClassName)) > 0 {
		return "ingressClassName"
	}
	backend := func(b *networking.IngressBackend) string {
		if b.Service != nil {
			if len(k8svalidation.IsDNS1035Label(b.Service.Name)) > 0 {
				return "service name"
			}
			if b.Service.Port.Name != "" && len(k8svalidation.IsValidPortName(b.Service.Port.Name)) > 0 {
				return "port name"
			}
		}
		if b.Resource != nil {
			if len(k8svalidation.IsDNS1123Subdomain(b.Resource.Name)) > 0 || b.Resource.Kind == "" {
				return "resource backend"
			}
		}
		return ""
	}
	if ing.Spec.DefaultBackend != nil {
		if e := backend(ing.Spec.DefaultBackend); e != "" {
			return e
		}
	}
	for _, t := range ing.Spec.TLS {
		for _, h := range t.Hosts {
			if !verifHostAdmitted(h) {
				return "tls host"
			}
		}
		if t.SecretName != "" && len(k8svalidation.IsDNS1123Subdomain(t.SecretName)) > 0 {
			return "tls secretName"
		}
	}
	for _, r := range ing.Spec.Rules {
		if r.Host != "" && !verifHostAdmitted(r.Host) {
			return "host"
		}
		if r.HTTP == nil {
			continue
		}
		for _, p := range r.HTTP.Paths {
			if p.PathType == nil {
				return "pathType"
			}
			switch *p.PathType {
			case networking.PathTypeExact, networking.PathTypePrefix:
				if !strings.HasPrefix(p.Path, "/") {
					return "path"
				}
				for _, bad := range []string{"//", "/./", "/../", "%2f", "%2F"} {
					if strings.Contains(p.Path, bad) {
						return "path"
					}
				}
				if strings.HasSuffix(p.Path, "/..") || strings.HasSuffix(p.Path, "/.") {
					return "path"
				}
			case networking.PathTypeImplementationSpecific:
				if p.Path != "" && !strings.HasPrefix(p.Path, "/") {
					return "path"
				}
			default:
				return "pathType"
			}
			if e := backend(&p.Backend); e != "" {
				return e
			}
		}
	}
	return ""
}

// verifAccept runs the validator the controller runs for the kind, with the flags of verifNewFullLbc.
func verifAccept(obj interface{}, plus bool) string {
	vsv := validation.NewVirtualServerValidator(validation.IsPlus(plus), validation.IsDosEnabled(true), validation.IsCertManagerEnabled(true), validation.IsExternalDNSEnabled(true))
	var err error
	switch o := obj.(type) {
	case *networking.Ingress:
		if e := verifK8sAdmitIngress(o); e != "" {
			return "apiserver:" + e
		}
		if errs := validateIngress(o, plus, plus, true, true, false); len(errs) > 0 {
			err = errs.ToAggregate()
		}
	case *conf_v1.VirtualServer:
		err = vsv.ValidateVirtualServer(o)
	case *conf_v1.VirtualServerRoute:
		err = vsv.ValidateVirtualServerRoute(o)
	case *conf_v1.TransportServer:
		err = validation.NewTransportServerValidator(true, false, plus).ValidateTransportServer(o)
	case *conf_v1.Policy:
		err = validation.ValidatePolicy(o, plus, plus, plus)
	}
	if err != nil {
		return err.Error()
	}
	return ""
}

// ---------------------------------------------------------------- environment derived from the fixtures

type verifEnv struct {
	services map[string]map[string]bool // ns/name -> ports ("80" or "name:http")
	secrets  map[string]string          // ns/name -> type
	apPols   map[string]bool
	apLogs   map[string]bool
	dosRes   map[string]bool
	lst      map[string]string // listener name -> protocol (HTTP, HTTPS = HTTP with ssl, TCP, UDP)
}

func newVerifEnv() *verifEnv {
	return &verifEnv{services: map[string]map[string]bool{}, secrets: map[string]string{}, apPols: map[string]bool{}, apLogs: map[string]bool{}, dosRes: map[string]bool{}, lst: map[string]string{}}
}

func (e *verifEnv) svc(ns, name, port string) {
	if name == "" {
		return
	}
	k := ns + "/" + name
	if e.services[k] == nil {
		e.services[k] = map[string]bool{}
	}
	e.services[k][port] = true
}

func (e *verifEnv) sec(ns, name, typ string) {
	if name == "" {
		return
	}
	if strings.Contains(name, "/") {
		e.secrets[name] = typ
		return
	}
	e.secrets[ns+"/"+name] = typ
}

func verifQual(ns, ref string) string {
	if strings.Contains(ref, "/") {
		return ref
	}
	return ns + "/" + ref
}

func (e *verifEnv) scan(obj interface{}) {
	switch o := obj.(type) {
	case *networking.Ingress:
		ns := o.Namespace
		b := func(be *networking.IngressBackend) {
			if be != nil && be.Service != nil {
				if be.Service.Port.Name != "" {
					e.svc(ns, be.Service.Name, "name:"+be.Service.Port.Name)
				} else {
					e.svc(ns, be.Service.Name, strconv.Itoa(int(be.Service.Port.Number)))
				}
			}
		}
		b(o.Spec.DefaultBackend)
		for _, r := range o.Spec.Rules {
			if r.HTTP != nil {
				for i := range r.HTTP.Paths {
					b(&r.HTTP.Paths[i].Backend)
				}
			}
		}
		for _, t := range o.Spec.TLS {
			e.sec(ns, t.SecretName, "tls")
		}
		e.sec(ns, o.Annotations["nginx.org/basic-auth-secret"], "htpasswd")
		e.sec(ns, o.Annotations["nginx.com/jwt-key"], "jwk")
		if v := o.Annotations[appProtectPolicyAnnotation]; v != "" {
			e.apPols[verifQual(ns, v)] = true
		}
		for _, v := range strings.Split(o.Annotations[appProtectSecurityLogAnnotation], ",") {
			if v != "" {
				e.apLogs[verifQual(ns, v)] = true
			}
		}
		if v := o.Annotations[appProtectDosProtectedAnnotation]; v != "" {
			e.dosRes[verifQual(ns, v)] = true
		}
	case *conf_v1.VirtualServer:
		e.scanUpstreams(o.Namespace, o.Spec.Upstreams)
		if o.Spec.Listener != nil {
			if o.Spec.Listener.HTTP != "" {
				e.lst[o.Spec.Listener.HTTP] = "HTTP"
			}
			if o.Spec.Listener.HTTPS != "" {
				e.lst[o.Spec.Listener.HTTPS] = "HTTPS"
			}
		}
		if o.Spec.TLS != nil {
			e.sec(o.Namespace, o.Spec.TLS.Secret, "tls")
		}
		if o.Spec.Dos != "" {
			e.dosRes[verifQual(o.Namespace, o.Spec.Dos)] = true
		}
		for _, r := range o.Spec.Routes {
			if r.Dos != "" {
				e.dosRes[verifQual(o.Namespace, r.Dos)] = true
			}
		}
	case *conf_v1.VirtualServerRoute:
		e.scanUpstreams(o.Namespace, o.Spec.Upstreams)
		for _, r := range o.Spec.Subroutes {
			if r.Dos != "" {
				e.dosRes[verifQual(o.Namespace, r.Dos)] = true
			}
		}
	case *conf_v1.TransportServer:
		if o.Spec.Listener.Protocol == "TCP" || o.Spec.Listener.Protocol == "UDP" {
			e.lst[o.Spec.Listener.Name] = o.Spec.Listener.Protocol
		}
		for _, u := range o.Spec.Upstreams {
			e.svc(o.Namespace, u.Service, strconv.Itoa(u.Port))
			if u.Backup != "" && u.BackupPort != nil {
				e.svc(o.Namespace, u.Backup, strconv.Itoa(int(*u.BackupPort)))
			}
		}
		if o.Spec.TLS != nil {
			e.sec(o.Namespace, o.Spec.TLS.Secret, "tls")
		}
	case *conf_v1.Policy:
		ns := o.Namespace
		s := o.Spec
		if s.JWTAuth != nil {
			e.sec(ns, s.JWTAuth.Secret, "jwk")
		}
		if s.BasicAuth != nil {
			e.sec(ns, s.BasicAuth.Secret, "htpasswd")
		}
		if s.IngressMTLS != nil {
			e.sec(ns, s.IngressMTLS.ClientCertSecret, "ca")
		}
		if s.EgressMTLS != nil {
			e.sec(ns, s.EgressMTLS.TLSSecret, "tls")
			e.sec(ns, s.EgressMTLS.TrustedCertSecret, "ca")
		}
		if s.OIDC != nil {
			e.sec(ns, s.OIDC.ClientSecret, "oidc")
		}
		if s.APIKey != nil {
			e.sec(ns, s.APIKey.ClientSecret, "apikey")
		}
		if s.WAF != nil {
			if s.WAF.ApPolicy != "" {
				e.apPols[verifQual(ns, s.WAF.ApPolicy)] = true
			}
			if s.WAF.SecurityLog != nil && s.WAF.SecurityLog.ApLogConf != "" {
				e.apLogs[verifQual(ns, s.WAF.SecurityLog.ApLogConf)] = true
			}
			for _, l := range s.WAF.SecurityLogs {
				if l != nil && l.ApLogConf != "" {
					e.apLogs[verifQual(ns, l.ApLogConf)] = true
				}
			}
		}
	}
}

func (e *verifEnv) scanUpstreams(ns string, ups []conf_v1.Upstream) {
	for _, u := range ups {
		e.svc(ns, u.Service, strconv.Itoa(int(u.Port)))
		if u.Backup != "" && u.BackupPort != nil {
			e.svc(ns, u.Backup, strconv.Itoa(int(*u.BackupPort)))
		}
	}
}

func verifSplitKey(k string) (string, string) {
	p := strings.SplitN(k, "/", 2)
	return p[0], p[1]
}

// install puts the environment into the controller's stores (no events: it is there before the resources arrive).
func (e *verifEnv) install(w *verifLbcWorld) {
	nsi := w.nsi()
	t := true
	keys := func(m map[string]map[string]bool) []string {
		var ks []string
		for k := range m {
			ks = append(ks, k)
		}
		sort.Strings(ks)
		return ks
	}
	for _, k := range keys(e.services) {
		ns, name := verifSplitKey(k)
		svc := &api_v1.Service{ObjectMeta: metav1.ObjectMeta{Namespace: ns, Name: name}}
		svc.Spec.ClusterIP = "10.96.0.9"
		svc.Spec.Selector = map[string]string{"app": name}
		var ports []string
		for p := range e.services[k] {
			ports = append(ports, p)
		}
		sort.Strings(ports)
		es := &discovery_v1.EndpointSlice{ObjectMeta: metav1.ObjectMeta{Namespace: ns, Name: name + "-s", Labels: map[string]string{"kubernetes.io/service-name": name}}}
		for i, p := range ports {
			tp := int32(8000 + i)
			proto := api_v1.ProtocolTCP
			sp := api_v1.ServicePort{Port: int32(9000 + i), TargetPort: intstr.FromInt(int(tp)), Protocol: proto, Name: "p" + strconv.Itoa(i)}
			if strings.HasPrefix(p, "name:") {
				sp.Name = strings.TrimPrefix(p, "name:")
			} else {
				n, _ := strconv.Atoi(p)
				sp.Port = int32(n)
			}
			svc.Spec.Ports = append(svc.Spec.Ports, sp)
			es.Ports = append(es.Ports, discovery_v1.EndpointPort{Port: &[]int32{tp}[0], Protocol: &proto, Name: &[]string{sp.Name}[0]})
		}
		if verifDepsMode != "noendpoints" {
			es.Endpoints = []discovery_v1.Endpoint{{Addresses: []string{"10.2.0.1"}, Conditions: discovery_v1.EndpointConditions{Ready: &t}},
				{Addresses: []string{"10.2.0.2"}, Conditions: discovery_v1.EndpointConditions{Ready: &t}}}
		}
		_ = nsi.svcLister.Add(svc)
		_ = nsi.endpointSliceLister.Store.Add(es)
	}
	var sk []string
	for k := range e.secrets {
		sk = append(sk, k)
	}
	sort.Strings(sk)
	for _, k := range sk {
		ns, name := verifSplitKey(k)
		typ := e.secrets[k]
		if verifDepsMode == "nosecrets" {
			continue
		}
		if verifDepsMode == "badsecrets" {
			typ = "bad"
		}
		if verifDepsMode == "wrongsecrets" {
			// every referenced Secret exists and is VALID — hence has files in the store — but is of another type than the
			// reference wants (seed C07-7: a CA secret's path is two file names)
			typ = map[string]string{"tls": "ca", "ca": "tls", "jwk": "htpasswd", "htpasswd": "jwk", "oidc": "ca", "apikey": "ca"}[typ]
		}
		var s *api_v1.Secret
		if typ == "oidc" {
			s = &api_v1.Secret{ObjectMeta: metav1.ObjectMeta{Namespace: ns, Name: name}, Type: secrets.SecretTypeOIDC, Data: map[string][]byte{"client-secret": []byte("sec")}}
		} else {
			s = verifLbcSecret(name, typ, 1)
			s.Namespace = ns
		}
		_ = nsi.secretLister.Add(s)
		w.lbc.secretStore.AddOrUpdateSecret(s) // what syncSecret does for a Secret that is there before the resources arrive
	}
	if len(e.lst) > 0 {
		gc := &conf_v1.GlobalConfiguration{ObjectMeta: metav1.ObjectMeta{Namespace: "nginx-ingress", Name: "nginx-configuration"}}
		var names []string
		for n := range e.lst {
			names = append(names, n)
		}
		sort.Strings(names)
		for i, n := range names {
			l := conf_v1.Listener{Name: n, Port: 7000 + i, Protocol: e.lst[n]}
			if l.Protocol == "HTTPS" {
				l.Protocol, l.Ssl = "HTTP", true
			}
			gc.Spec.Listeners = append(gc.Spec.Listeners, l)
		}
		if err := w.lbc.globalConfigurationValidator.ValidateGlobalConfiguration(gc); err == nil {
			w.lbc.configuration.AddOrUpdateGlobalConfiguration(gc)
		}
	}
	for k := range e.apPols {
		ns, name := verifSplitKey(k)
		u := &unstructured.Unstructured{Object: map[string]interface{}{"spec": map[string]interface{}{"policy": map[string]interface{}{"name": "p"}}}}
		u.SetAPIVersion("appprotect.f5.com/v1beta1")
		u.SetKind("APPolicy")
		u.SetNamespace(ns)
		u.SetName(name)
		u.SetUID(types.UID("ap-" + name))
		w.lbc.appProtectConfiguration.AddOrUpdatePolicy(u)
	}
	for k := range e.apLogs {
		ns, name := verifSplitKey(k)
		u := &unstructured.Unstructured{Object: map[string]interface{}{"spec": map[string]interface{}{
			"content": map[string]interface{}{"format": "default"}, "filter": map[string]interface{}{"request_type": "all"}}}}
		u.SetAPIVersion("appprotect.f5.com/v1beta1")
		u.SetKind("APLogConf")
		u.SetNamespace(ns)
		u.SetName(name)
		u.SetUID(types.UID("al-" + name))
		w.lbc.appProtectConfiguration.AddOrUpdateLogConf(u)
	}
	for k := range e.dosRes {
		ns, name := verifSplitKey(k)
		p := &dos_v1beta1.DosProtectedResource{ObjectMeta: metav1.ObjectMeta{Namespace: ns, Name: name}}
		p.Spec.Name = "app"
		p.Spec.Enable = true
		w.lbc.dosConfiguration.AddOrUpdateDosProtectedResource(p)
	}
}

// ---------------------------------------------------------------- delivery through the real handlers

func verifSetClass(obj interface{}, i int) {
	cls := "nginx"
	switch o := obj.(type) {
	case *networking.Ingress:
		if o.Spec.IngressClassName == nil {
			if o.Annotations == nil || o.Annotations["kubernetes.io/ingress.class"] == "" {
				o.Spec.IngressClassName = &cls
			}
		}
		o.UID = types.UID(fmt.Sprintf("u-%03d", i))
		o.CreationTimestamp = metav1.Unix(1700000000+int64(i), 0)
	case *conf_v1.VirtualServer:
		o.UID = types.UID(fmt.Sprintf("u-%03d", i))
		o.CreationTimestamp = metav1.Unix(1700000000+int64(i), 0)
	case *conf_v1.VirtualServerRoute:
		o.UID = types.UID(fmt.Sprintf("u-%03d", i))
		o.CreationTimestamp = metav1.Unix(1700000000+int64(i), 0)
	case *conf_v1.TransportServer:
		o.UID = types.UID(fmt.Sprintf("u-%03d", i))
		o.CreationTimestamp = metav1.Unix(1700000000+int64(i), 0)
	case *conf_v1.Policy:
		o.UID = types.UID(fmt.Sprintf("u-%03d", i))
	}
}

func (w *verifLbcWorld) deliverObj(obj interface{}) {
	nsi := w.nsi()
	add := func(store cache.Store, h cache.ResourceEventHandlerFuncs, o interface{}) {
		_ = store.Add(o)
		h.OnAdd(o, false)
	}
	switch o := obj.(type) {
	case *networking.Ingress:
		add(nsi.ingressLister.Store, createIngressHandlers(w.lbc), o)
	case *conf_v1.VirtualServer:
		add(nsi.virtualServerLister, createVirtualServerHandlers(w.lbc), o)
	case *conf_v1.VirtualServerRoute:
		add(nsi.virtualServerRouteLister, createVirtualServerRouteHandlers(w.lbc), o)
	case *conf_v1.TransportServer:
		add(nsi.transportServerLister, createTransportServerHandlers(w.lbc), o)
	case *conf_v1.Policy:
		add(nsi.policyLister, createPolicyHandlers(w.lbc), o)
	}
}

// verifPolicyHosts: VirtualServers that put a policy to use, at spec level and (where the kind allows it) at route level.
func verifPolicyHosts(p *conf_v1.Policy, i int) []*conf_v1.VirtualServer {
	mk := func(label string, spec, route bool) *conf_v1.VirtualServer {
		vs := &conf_v1.VirtualServer{ObjectMeta: metav1.ObjectMeta{Namespace: p.Namespace, Name: "ph-" + label + "-" + p.Name}}
		vs.Spec.Host = label + "." + p.Name + ".pol.ex"
		vs.Spec.TLS = &conf_v1.TLS{Secret: "ph-tls"}
		vs.Spec.Upstreams = []conf_v1.Upstream{{Name: "u", Service: "ph-svc", Port: 80}}
		vs.Spec.Routes = []conf_v1.Route{{Path: "/", Action: &conf_v1.Action{Pass: "u"}}, {Path: "/other", Action: &conf_v1.Action{Pass: "u"}}}
		if spec {
			vs.Spec.Policies = []conf_v1.PolicyReference{{Name: p.Name}}
		}
		if route {
			vs.Spec.Routes[0].Policies = []conf_v1.PolicyReference{{Name: p.Name}}
		}
		return vs
	}
	out := []*conf_v1.VirtualServer{mk("s", true, false)}
	if p.Spec.IngressMTLS == nil {
		out = append(out, mk("r", false, true))
	}
	return out
}

// verifRenderSet builds a fresh controller, installs the environment, delivers the objects in one start-up batch and returns the
// files NGINX would see.
func verifRenderSet(plus bool, objs []interface{}, hostPolicy string) (map[string]string, *verifLbcWorld, error) {
	w, err := verifNewFullLbc(plus)
	if err != nil {
		return nil, nil, err
	}
	env := newVerifEnv()
	env.svc("d", "ph-svc", "80")
	env.sec("d", "ph-tls", "tls")
	var all []interface{}
	for _, o := range objs {
		all = append(all, o)
		if p, ok := o.(*conf_v1.Policy); ok && (hostPolicy == "*" || hostPolicy == p.Name) {
			for _, vs := range verifPolicyHosts(p, 0) {
				all = append(all, vs)
			}
		}
	}
	for _, o := range all {
		env.scan(o)
	}
	env.install(w)
	// policies first, then routes, then the rest: the order in which the informers happen to deliver does not matter for the files
	rank := func(o interface{}) int {
		switch o.(type) {
		case *conf_v1.Policy:
			return 0
		case *conf_v1.VirtualServerRoute:
			return 1
		}
		return 2
	}
	sort.SliceStable(all, func(i, j int) bool { return rank(all[i]) < rank(all[j]) })
	for i, o := range all {
		verifSetClass(o, i)
		w.deliverObj(o)
	}
	w.drain()
	files := map[string]string{}
	for f, c := range w.rm.Files {
		if strings.HasPrefix(f, "secret/") || strings.HasPrefix(f, "ap") {
			continue
		}
		files[f] = c
	}
	return files, w, nil
}

// ---------------------------------------------------------------- the C06 oracle

const (
	verifMarkA = "zqj"
	verifMarkB = "zqk"
)

// verifSpanCheck: every place where the head marker is followed closely by the tail marker (the payload was written out, possibly
// escaped) must lie inside one argument token, with no structural event in between. Returns "" or a description.
func verifSpanCheck(file, content string, window int, special string) (string, int) {
	type pos struct{ tok, ev int }
	// token id and event count at every byte offset
	var evs []verifio.NgxEvent
	s := &verifio.NgxState{}
	at := make([]pos, len(content)+1)
	tok := 0
	prevMode := verifio.NgxSpace
	for i := 0; i < len(content); i++ {
		s.Step(content[i], &evs)
		inTok := s.Mode == verifio.NgxWord || s.Mode == verifio.NgxDq || s.Mode == verifio.NgxSq
		wasTok := prevMode == verifio.NgxWord || prevMode == verifio.NgxDq || prevMode == verifio.NgxSq
		if inTok && !wasTok {
			tok++
		}
		id := 0
		if inTok {
			id = tok
		} else if s.Mode == verifio.NgxComment {
			id = -1
		}
		at[i+1] = pos{id, len(evs)}
		prevMode = s.Mode
		if s.Err {
			return fmt.Sprintf("%s: lexical error at byte %d: %s", file, i, evs[len(evs)-1].Msg), 0
		}
	}
	spans := 0
	from := 0
	for {
		i := strings.Index(content[from:], verifMarkA)
		if i < 0 {
			break
		}
		i += from
		from = i + len(verifMarkA)
		end := from + window
		if end > len(content) {
			end = len(content)
		}
		j := strings.Index(content[from:end], verifMarkB)
		if j < 0 {
			continue // the generator consumed the payload character as one of its own separators: nothing of it was written here
		}
		j += from
		spans++
		a := at[i+1]
		// the first byte between the markers at which the token ends or a structural event happens; it is a violation when that
		// byte is one the payload supplied (otherwise the generator consumed the payload character as one of its own separators
		// and wrote its own structure here)
		bad := false
		for k := i + 1; k < j+len(verifMarkB) && !bad; k++ {
			if at[k+1].tok != a.tok || at[k+1].ev != a.ev {
				if special == "" || strings.IndexByte(special, content[k]) >= 0 {
					bad = true
				}
				break
			}
		}
		if bad {
			lo, hi := i-40, j+len(verifMarkB)+40
			if lo < 0 {
				lo = 0
			}
			if hi > len(content) {
				hi = len(content)
			}
			return fmt.Sprintf("%s: the payload leaves its argument token: %q", file, content[lo:hi]), spans
		}
	}
	return "", spans
}

func verifHexDecode(s string) string {
	b, _ := hex.DecodeString(s)
	return string(b)
}

func verifClean(s string) string {
	return strings.NewReplacer(" ", "%20", "\n", "%0A", "#", "%23", "\t", "%09", "\r", "%0D").Replace(s)
}

func verifFxByName(name string) *verifFx {
	fxs, _ := verifFixtures()
	for _, f := range fxs {
		if f.File == name {
			return f
		}
	}
	return nil
}

// verifFixtureSet decodes the fixtures admissible for the flavour, replacing the one named `file` by `repl` when given.
// With only != nil, the set is restricted to what the fixture under test needs in order to be rendered: every Policy and
// VirtualServerRoute (they are only stored unless something refers to them), the fixture itself, the VirtualServers when it is a
// route, the other mergeable Ingresses when it is a master or minion.
func verifFixtureSet(plus bool, file string, repl interface{}, only *verifFx) ([]interface{}, error) {
	fxs, err := verifFixtures()
	if err != nil {
		return nil, err
	}
	mergeable := func(f *verifFx) bool { return strings.Contains(string(f.Raw), "mergeable-ingress-type") }
	var objs []interface{}
	for _, f := range fxs {
		if f.PlusOnly && !plus {
			continue
		}
		if only != nil && f.File != only.File {
			switch {
			case f.Kind == "policy" || f.Kind == "vsr":
			case only.Kind == "vsr" && f.Kind == "vs":
			case only.Kind == "ingress" && f.Kind == "ingress" && mergeable(only) && mergeable(f):
			default:
				continue
			}
		}
		if f.File == file && repl != nil {
			objs = append(objs, repl)
			continue
		}
		o, err := f.decode()
		if err != nil {
			return nil, err
		}
		objs = append(objs, o)
	}
	return objs, nil
}

// VerifInjList lists the string leaves of every fixture: file|path|hex(value), and the type-level paths no fixture populates.
func VerifInjList(kv map[string]string) string {
	fxs, err := verifFixtures()
	if err != nil {
		return "fixture-error:" + verifClean(err.Error())
	}
	var out []string
	covered := map[string]map[string]bool{}
	for _, f := range fxs {
		o, err := f.decode()
		if err != nil {
			return "fixture-error:" + verifClean(err.Error())
		}
		if covered[f.Kind] == nil {
			covered[f.Kind] = map[string]bool{}
		}
		for _, l := range verifLeaves(o) {
			if l.Get() != "" {
				covered[f.Kind][verifGeneralise(l.Path)] = true
			}
			out = append(out, f.File+"|"+verifClean(l.Path)+"|"+hex.EncodeToString([]byte(l.Get())))
		}
	}
	types := map[string]reflect.Type{"ingress": reflect.TypeOf(networking.Ingress{}), "vs": reflect.TypeOf(conf_v1.VirtualServer{}),
		"vsr": reflect.TypeOf(conf_v1.VirtualServerRoute{}), "ts": reflect.TypeOf(conf_v1.TransportServer{}), "policy": reflect.TypeOf(conf_v1.Policy{})}
	var missing []string
	total := 0
	for kind, t := range types {
		paths := map[string]bool{}
		verifTypePaths(t, "", 0, paths)
		for p := range paths {
			total++
			if !covered[kind][p] {
				missing = append(missing, kind+":"+p)
			}
		}
	}
	// every annotation the controller knows must be set by some Ingress fixture
	for _, a := range annotationNames {
		total++
		if !covered["ingress"]["metadata.annotations[*]"] {
			missing = append(missing, "ingress:annotation:"+a)
			continue
		}
		found := false
		for _, f := range fxs {
			if f.Kind != "ingress" {
				continue
			}
			o, _ := f.decode()
			if _, ok := o.(*networking.Ingress).Annotations[a]; ok {
				found = true
			}
		}
		if !found {
			missing = append(missing, "ingress:annotation:"+a)
		}
	}
	sort.Strings(missing)
	return fmt.Sprintf("leaves=%s#typepaths=%d#missing=%s", strings.Join(out, ","), total, strings.Join(missing, ","))
}

// VerifInjBase renders the unmodified fixture set: every fixture must be accepted, every file must be lexically well formed.
func VerifInjBase(kv map[string]string) string {
	plus := kv["plus"] == "1"
	objs, err := verifFixtureSet(plus, "", nil, nil)
	if err != nil {
		return "fixture-error:" + verifClean(err.Error())
	}
	var rejected []string
	fxs, _ := verifFixtures()
	i := 0
	for _, f := range fxs {
		if f.PlusOnly && !plus {
			continue
		}
		if e := verifAccept(objs[i], plus); e != "" {
			rejected = append(rejected, f.File+":"+verifClean(e))
		}
		i++
	}
	files, _, err := verifRenderSet(plus, objs, "*")
	if err != nil {
		return "setup-error:" + verifClean(err.Error())
	}
	var bad []string
	var names []string
	for f, c := range files {
		names = append(names, f)
		if e := verifio.NgxWellFormed(c); e != "" {
			bad = append(bad, f+":"+verifClean(e))
		}
	}
	sort.Strings(names)
	sort.Strings(bad)
	var norender []string
	for _, o := range objs {
		want := ""
		switch x := o.(type) {
		case *networking.Ingress:
			if x.Annotations["nginx.org/mergeable-ingress-type"] != "minion" {
				want = "conf/" + x.Namespace + "-" + x.Name
			}
		case *conf_v1.VirtualServer:
			want = "conf/vs_" + x.Namespace + "_" + x.Name
		case *conf_v1.TransportServer:
			want = "stream/ts_" + x.Namespace + "_" + x.Name
		}
		if _, ok := files[want]; want != "" && !ok {
			norender = append(norender, want)
		}
		if x, ok := o.(*conf_v1.VirtualServerRoute); ok {
			// a route that is not attached to its VirtualServer renders nothing: every subroute path must show up somewhere
			for _, sr := range x.Spec.Subroutes {
				found := false
				p := strings.TrimSpace(strings.TrimLeft(sr.Path, "~*= "))
				for _, c := range files {
					if strings.Contains(c, p) {
						found = true
					}
				}
				if !found {
					norender = append(norender, "vsr:"+x.Name+":"+sr.Path)
				}
			}
		}
	}
	return fmt.Sprintf("fixtures=%d#rejected=%s#files=%s#malformed=%s#norender=%s", len(objs), strings.Join(rejected, ","), strings.Join(names, ","), strings.Join(bad, ","), strings.Join(norender, ","))
}

// verifRenderWithLeaf renders the fixture set with one string leaf replaced; nil if the leaf is missing, the object is rejected or
// the rendering fails.
func verifRenderWithLeaf(fx *verifFx, plus bool, path, val, host string) map[string]string {
	obj, err := fx.decode()
	if err != nil {
		return nil
	}
	found := false
	for _, l := range verifLeaves(obj) {
		if verifClean(l.Path) == path {
			l.Set(val)
			found = true
			break
		}
	}
	if !found || verifAccept(obj, plus) != "" {
		return nil
	}
	objs, err := verifFixtureSet(plus, fx.File, obj, fx)
	if err != nil {
		return nil
	}
	files, _, err := verifRenderSet(plus, objs, host)
	if err != nil {
		return nil
	}
	return files
}

// VerifInj replaces one string leaf of one fixture by a payload and reports: rej (validation refuses it) | acc + what the
// rendered files look like.  kv: fx, plus, path, val (hex), win
func VerifInj(kv map[string]string) string {
	plus := kv["plus"] == "1"
	fx := verifFxByName(kv["fx"])
	if fx == nil {
		return "no-fixture"
	}
	obj, err := fx.decode()
	if err != nil {
		return "fixture-error"
	}
	val := verifHexDecode(kv["val"])
	found := false
	for _, l := range verifLeaves(obj) {
		if verifClean(l.Path) == kv["path"] {
			l.Set(val)
			found = true
			break
		}
	}
	if !found {
		return "no-leaf"
	}
	if e := verifAccept(obj, plus); e != "" {
		if os.Getenv("VERIF_REJ_REASON") != "" {
			return "rej:" + verifClean(e)
		}
		return "rej"
	}
	objs, err := verifFixtureSet(plus, fx.File, obj, fx)
	if err != nil {
		return "fixture-error"
	}
	host := ""
	if p, ok := obj.(*conf_v1.Policy); ok {
		host = p.Name
	}
	files, _, err := verifRenderSet(plus, objs, host)
	if err != nil {
		return "setup-error"
	}
	win, _ := strconv.Atoi(kv["win"])
	if win == 0 {
		win = 48
	}
	var names []string
	for f := range files {
		names = append(names, f)
	}
	sort.Strings(names)
	written := false
	for _, f := range names {
		if strings.Contains(files[f], verifMarkA) {
			written = true
		}
	}
	if kv["sk"] == "1" && written {
		// the payload is white space / a backslash at the very end of the value: whatever becomes of it, the directive / block
		// skeleton of every file must be the one of the unmodified fixture
		base, err := verifFixtureSet(plus, "", nil, fx)
		if err != nil {
			return "fixture-error"
		}
		bfiles, _, err := verifRenderSet(plus, base, host)
		if err != nil {
			return "setup-error"
		}
		for _, f := range names {
			if a, b := verifSkeleton(files[f]), verifSkeleton(bfiles[f]); a != b {
				return "acc#bad=" + verifClean(fmt.Sprintf("%s: the skeleton differs from the one of the unmodified resource: %s", f, verifFirstDiff(a, b)))
			}
		}
	}
	if kv["sk"] == "2" {
		// the value is the fixture's own value padded with white space (no marker): if validation accepts it, every file that is
		// still written must keep the directive / block skeleton of the unmodified fixture — either both the validator and the
		// generator trim, or the value sits inside quotes; a validator that trims while the generator does not is the failure
		base, err := verifFixtureSet(plus, "", nil, fx)
		if err != nil {
			return "fixture-error"
		}
		bfiles, _, err := verifRenderSet(plus, base, host)
		if err != nil {
			return "setup-error"
		}
		same := 0
		for _, f := range names {
			bf, ok := bfiles[f]
			if !ok {
				continue
			}
			same++
			if a, b := verifSkeleton(files[f]), verifSkeleton(bf); a != b {
				// a value that the generator's own parser refuses is dropped (logged, the default is used): the skeleton then differs
				// by omission only, exactly as it does when the value is empty — that is not the value leaving its token
				if e := verifRenderWithLeaf(fx, plus, kv["path"], "", host); e != nil && verifSkeleton(e[f]) == a {
					continue
				}
				return "acc#bad=" + verifClean(fmt.Sprintf("%s: white space around the value changes the skeleton: %s", f, verifFirstDiff(a, b)))
			}
			if msg := verifio.NgxWellFormed(files[f]); msg != "" {
				return "acc#bad=" + verifClean(f+": "+msg)
			}
		}
		return fmt.Sprintf("acc#spans=%d#marks=0#pad=1", same)
	}
	spans := 0
	marks := 0
	for _, f := range names {
		c := files[f]
		marks += strings.Count(c, verifMarkA)
		msg, n := verifSpanCheck(f, c, win, verifHexDecode(kv["sp"]))
		spans += n
		if msg != "" {
			return "acc#bad=" + verifClean(msg)
		}
	}
	return fmt.Sprintf("acc#ok#marks=%d#spans=%d", marks, spans)
}

// VerifInjFiles returns the files of the unmodified fixture set, hex encoded: name=hex,name=hex (input of the tokenizer correspondence).
func VerifInjFiles(kv map[string]string) string {
	plus := kv["plus"] == "1"
	objs, err := verifFixtureSet(plus, "", nil, nil)
	if err != nil {
		return "fixture-error"
	}
	files, _, err := verifRenderSet(plus, objs, "*")
	if err != nil {
		return "setup-error"
	}
	var names []string
	for f := range files {
		names = append(names, f)
	}
	sort.Strings(names)
	var out []string
	for _, f := range names {
		out = append(out, verifClean(f)+"="+hex.EncodeToString([]byte(files[f])))
	}
	return strings.Join(out, ",")
}

// ---------------------------------------------------------------- C07: whole-output oracle over generated resource sets

// verifInstantiate makes a copy of a fixture under another namespace, name prefix and host tag. References inside the
// fixture set (policies, routes, App Protect resources: "d/x" or bare names) move with the namespace.
func verifInstantiate(f *verifFx, ns, prefix, hostTag string) (interface{}, error) {
	raw := string(f.Raw)
	raw = strings.ReplaceAll(raw, "example.com", hostTag+".example.com")
	raw = strings.ReplaceAll(raw, "namespace: d\n", "namespace: "+ns+"\n")
	raw = strings.ReplaceAll(raw, " d/", " "+ns+"/")
	raw = strings.ReplaceAll(raw, "\"d/", "\""+ns+"/")
	raw = strings.ReplaceAll(raw, ",d/", ","+ns+"/")
	g := &verifFx{File: f.File, Kind: f.Kind, PlusOnly: f.PlusOnly, Raw: []byte(raw)}
	o, err := g.decode()
	if err != nil {
		return nil, err
	}
	switch x := o.(type) {
	case *networking.Ingress:
		x.Name = prefix + x.Name
	case *conf_v1.VirtualServer:
		x.Name = prefix + x.Name
	case *conf_v1.TransportServer:
		x.Name = prefix + x.Name
		if x.Spec.Listener.Protocol != "TLS_PASSTHROUGH" {
			x.Spec.Listener.Name = strings.ToLower(hostTag) + "-" + x.Spec.Listener.Name
		}
	}
	return o, nil
}

// verifMinimal builds small resources whose identifiers are made from the given parts only.
func verifMinimal(kind, ns, name, host, svc string) interface{} {
	switch kind {
	case "ing":
		pt := networking.PathTypePrefix
		ing := &networking.Ingress{ObjectMeta: metav1.ObjectMeta{Namespace: ns, Name: name, Annotations: map[string]string{}}}
		ing.Spec.Rules = []networking.IngressRule{{Host: host, IngressRuleValue: networking.IngressRuleValue{HTTP: &networking.HTTPIngressRuleValue{
			Paths: []networking.HTTPIngressPath{{Path: "/", PathType: &pt, Backend: networking.IngressBackend{Service: &networking.IngressServiceBackend{Name: svc, Port: networking.ServiceBackendPort{Number: 80}}}}}}}}}
		return ing
	case "vs":
		vs := &conf_v1.VirtualServer{ObjectMeta: metav1.ObjectMeta{Namespace: ns, Name: name}}
		vs.Spec.Host = host
		vs.Spec.Upstreams = []conf_v1.Upstream{{Name: svc, Service: svc, Port: 80}}
		vs.Spec.Routes = []conf_v1.Route{{Path: "/", Action: &conf_v1.Action{Pass: svc}},
			{Path: "/ret", Matches: []conf_v1.Match{{Conditions: []conf_v1.Condition{{Header: "x-a", Value: "1"}}, Action: &conf_v1.Action{Return: &conf_v1.ActionReturn{Body: "m"}}}},
				Action: &conf_v1.Action{Return: &conf_v1.ActionReturn{Body: "d"}}},
			{Path: "/mixed", Matches: []conf_v1.Match{{Conditions: []conf_v1.Condition{{Header: "x-a", Value: "1"}}, Action: &conf_v1.Action{Pass: svc}},
				{Conditions: []conf_v1.Condition{{Header: "x-a", Value: "2"}}, Action: &conf_v1.Action{Return: &conf_v1.ActionReturn{Body: "m2"}}},
				{Conditions: []conf_v1.Condition{{Header: "x-a", Value: "3"}}, Splits: []conf_v1.Split{{Weight: 50, Action: &conf_v1.Action{Return: &conf_v1.ActionReturn{Body: "s1"}}}, {Weight: 50, Action: &conf_v1.Action{Pass: svc}}}}},
				Action: &conf_v1.Action{Return: &conf_v1.ActionReturn{Body: "d2"}}},
			{Path: "/split", Splits: []conf_v1.Split{{Weight: 50, Action: &conf_v1.Action{Pass: svc}}, {Weight: 50, Action: &conf_v1.Action{Return: &conf_v1.ActionReturn{Body: "s"}}}}}}
		return vs
	case "ts":
		ts := &conf_v1.TransportServer{ObjectMeta: metav1.ObjectMeta{Namespace: ns, Name: name}}
		ts.Spec.Listener = conf_v1.TransportServerListener{Name: conf_v1.TLSPassthroughListenerName, Protocol: conf_v1.TLSPassthroughListenerProtocol}
		ts.Spec.Host = host
		ts.Spec.Upstreams = []conf_v1.TransportServerUpstream{{Name: svc, Service: svc, Port: 80}}
		ts.Spec.Action = &conf_v1.TransportServerAction{Pass: svc}
		return ts
	}
	return nil
}

// verifCrossDelegation: VirtualServer ns1/name delegates /sub to a VirtualServerRoute in ns2 whose subroute carries a policy of its
// own (kind: rl | rlkey — rate limits whose zones and variables are named per VirtualServer), while a second VirtualServer with the
// SAME name lives in ns2 and references the same policy. Identifiers derived from "the VirtualServer" must not meet.
func verifCrossDelegation(ns1, ns2, name, kind string) []interface{} {
	pol := &conf_v1.Policy{ObjectMeta: metav1.ObjectMeta{Namespace: ns2, Name: "xp-" + kind}}
	switch kind {
	case "rlkey":
		pol.Spec.RateLimit = &conf_v1.RateLimit{Rate: "7r/s", ZoneSize: "10M", Key: "${request_uri}"}
	default:
		pol.Spec.RateLimit = &conf_v1.RateLimit{Rate: "5r/s", ZoneSize: "10M", Key: "${binary_remote_addr}"}
	}
	host1, host2 := "xd1-"+name+".ex", "xd2-"+name+".ex"
	vs1 := &conf_v1.VirtualServer{ObjectMeta: metav1.ObjectMeta{Namespace: ns1, Name: name}}
	vs1.Spec.Host = host1
	vs1.Spec.Upstreams = []conf_v1.Upstream{{Name: "u", Service: "svc", Port: 80}}
	vs1.Spec.Routes = []conf_v1.Route{{Path: "/", Action: &conf_v1.Action{Pass: "u"}}, {Path: "/sub", Route: ns2 + "/xr-" + name}}
	vsr := &conf_v1.VirtualServerRoute{ObjectMeta: metav1.ObjectMeta{Namespace: ns2, Name: "xr-" + name}}
	vsr.Spec.Host = host1
	vsr.Spec.Upstreams = []conf_v1.Upstream{{Name: "ru", Service: "svc", Port: 80}}
	vsr.Spec.Subroutes = []conf_v1.Route{{Path: "/sub/a", Action: &conf_v1.Action{Pass: "ru"}, Policies: []conf_v1.PolicyReference{{Name: pol.Name}}}}
	vs2 := &conf_v1.VirtualServer{ObjectMeta: metav1.ObjectMeta{Namespace: ns2, Name: name}}
	vs2.Spec.Host = host2
	vs2.Spec.Upstreams = []conf_v1.Upstream{{Name: "u", Service: "svc", Port: 80}}
	vs2.Spec.Policies = []conf_v1.PolicyReference{{Name: pol.Name}}
	vs2.Spec.Routes = []conf_v1.Route{{Path: "/", Action: &conf_v1.Action{Pass: "u"}}}
	return []interface{}{pol, vsr, vs1, vs2}
}

// directives that may stand without an argument
var verifZeroArg = map[string]bool{"internal": true, "ip_hash": true, "least_conn": true, "ntlm": true, "random": true, "ssl_preread": true,
	"proxy_protocol": true, "premium": true, "stub_status": true, "sticky": false}

// exact / bounded arities of the directives the templates write most (NGINX documentation); min, max (-1 = any)
var verifDirectiveName = regexp.MustCompile(`^[a-z][a-z0-9_]*$`)

var verifArity = map[string][2]int{"proxy_hide_header": {1, 1}, "proxy_pass_header": {1, 1}, "proxy_set_header": {2, 2}, "grpc_set_header": {2, 2},
	"proxy_pass": {1, 1}, "grpc_pass": {1, 1}, "set": {2, 2}, "add_header": {2, 3}, "return": {1, 2}, "rewrite": {2, 3}, "upstream": {1, 1}, "zone": {1, 2},
	"server_name": {1, -1}, "listen": {1, -1}, "location": {1, 2}, "limit_req_zone": {3, 4}, "keyval_zone": {1, 5}, "keyval": {3, 3}, "map": {2, 2}, "match": {1, 1},
	"status_zone": {1, 1}, "client_max_body_size": {1, 1}, "proxy_connect_timeout": {1, 1}, "proxy_read_timeout": {1, 1}, "proxy_send_timeout": {1, 1},
	"proxy_buffering": {1, 1}, "proxy_buffers": {2, 2}, "proxy_buffer_size": {1, 1}, "proxy_max_temp_file_size": {1, 1}, "ssl_certificate": {1, 1},
	"ssl_certificate_key": {1, 1}, "auth_basic": {1, 1}, "auth_basic_user_file": {1, 1}, "auth_jwt": {1, 2}, "auth_jwt_key_file": {1, 1}, "error_page": {2, -1},
	"proxy_ssl_name": {1, 1}, "proxy_ssl_ciphers": {1, 1}, "proxy_ssl_protocols": {1, -1}, "ssl_crl": {1, 1}, "ssl_client_certificate": {1, 1},
	"hash": {1, 2}, "server_tokens": {1, 1}, "split_clients": {2, 2}, "limit_req": {1, 4}, "proxy_http_version": {1, 1}, "default_type": {1, 1},
	"app_protect_security_log": {1, 2}, "app_protect_policy_file": {1, 1}, "health_check": {0, -1}, "queue": {1, 2}, "keepalive": {1, 1},
	"proxy_next_upstream": {1, -1}, "proxy_next_upstream_timeout": {1, 1}, "proxy_next_upstream_tries": {1, 1}, "send": {1, 1}, "expect": {1, 2}, "status": {1, -1}}

type verifDef struct{ kind, scope, name, file string }

// verifAnalyse reads every file with the tokenizer twin and collects lexical errors, arity errors and the definitions of
// identifiers that NGINX requires to be unique.
func verifAnalyse(files map[string]string) (malformed, arity []string, defs []verifDef) {
	var names []string
	for f := range files {
		names = append(names, f)
	}
	sort.Strings(names)
	for _, f := range names {
		ctx := "http"
		if strings.HasPrefix(f, "stream/") {
			ctx = "stream"
		}
		if f == "main" {
			ctx = "main"
		}
		evs := verifio.NgxLex(files[f])
		var stack []string // block names
		serverID := 0
		var listens []string
		var snames []string
		flushServer := func() {
			for _, l := range listens {
				for _, n := range snames {
					defs = append(defs, verifDef{"server_name", ctx + "@" + l, n, f})
				}
			}
			listens, snames = nil, nil
		}
		for _, e := range evs {
			switch e.Kind {
			case "error":
				malformed = append(malformed, f+":"+verifClean(e.Msg))
			case "close":
				if len(stack) > 0 {
					if stack[len(stack)-1] == "server" && (len(stack) == 1 || stack[len(stack)-2] != "upstream") {
						flushServer()
					}
					stack = stack[:len(stack)-1]
				}
			case "dir", "open":
				if len(e.Args) == 0 {
					continue
				}
				name := e.Args[0]
				nargs := len(e.Args) - 1
				inData := len(stack) > 0 && (stack[len(stack)-1] == "map" || stack[len(stack)-1] == "split_clients" || stack[len(stack)-1] == "match" || stack[len(stack)-1] == "types" || stack[len(stack)-1] == "geo")
				if !inData && strings.Contains(name, "=") && !verifDirectiveName.MatchString(name) {
					// every NGINX directive name is lower-case letters, digits and underscores: a first word with `=` in it
					// (`health_checkinterval=5s`: a directive glued to its first parameter) is an unknown directive. Only `=` is
					// looked for: files that are included inside a map block (the passthrough hosts) start their lines with host names
					arity = append(arity, f+":"+verifClean(name)+"/badname")
				}
				if !inData || e.Kind == "open" {
					if nargs == 0 && !verifZeroArg[name] && e.Kind == "dir" {
						arity = append(arity, f+":"+verifClean(name)+"/0")
					}
					if a, ok := verifArity[name]; ok && !inData {
						if nargs < a[0] || (a[1] >= 0 && nargs > a[1]) {
							if !(name == "server" && e.Kind == "open") {
								arity = append(arity, fmt.Sprintf("%s:%s/%d", f, verifClean(name), nargs))
							}
						}
					}
				}
				top := ""
				if len(stack) > 0 {
					top = stack[len(stack)-1]
				}
				arg := func(i int) string {
					if i < len(e.Args) {
						return e.Args[i]
					}
					return ""
				}
				zoneOf := func() string {
					for _, a := range e.Args[1:] {
						if strings.HasPrefix(a, "zone=") {
							return strings.SplitN(strings.TrimPrefix(a, "zone="), ":", 2)[0]
						}
					}
					return ""
				}
				switch {
				case e.Kind == "open" && name == "upstream":
					defs = append(defs, verifDef{"upstream", ctx, arg(1), f})
				case e.Kind == "dir" && name == "zone" && top == "upstream":
					defs = append(defs, verifDef{"zone", ctx, arg(1), f})
				case e.Kind == "dir" && name == "limit_req_zone":
					defs = append(defs, verifDef{"limit_req_zone", ctx, zoneOf(), f})
				case e.Kind == "dir" && name == "keyval_zone":
					defs = append(defs, verifDef{"keyval_zone", ctx, zoneOf(), f})
				case e.Kind == "dir" && name == "proxy_cache_path":
					for _, a := range e.Args[1:] {
						if strings.HasPrefix(a, "keys_zone=") {
							defs = append(defs, verifDef{"cache_zone", ctx, strings.SplitN(strings.TrimPrefix(a, "keys_zone="), ":", 2)[0], f})
						}
					}
				case e.Kind == "dir" && name == "keyval" && !inData:
					defs = append(defs, verifDef{"keyval_variable", ctx, arg(2), f})
				case e.Kind == "dir" && name == "auth_jwt_claim_set" && !inData:
					defs = append(defs, verifDef{"jwt_claim_variable", ctx, arg(1), f})
				case e.Kind == "open" && name == "match" && (top == "" || top == "http" || top == "stream"):
					defs = append(defs, verifDef{"match", ctx, arg(1), f})
				case e.Kind == "open" && name == "location" && top == "server":
					key := strings.Join(e.Args[1:], " ")
					kind := "location"
					if strings.HasPrefix(arg(1), "@") {
						kind = "named_location"
					}
					defs = append(defs, verifDef{kind, fmt.Sprintf("%s#server%d", f, serverID), key, f})
				case e.Kind == "dir" && name == "listen" && top == "server":
					listens = append(listens, arg(1))
				case e.Kind == "dir" && name == "server_name" && top == "server":
					snames = append(snames, e.Args[1:]...)
				}
				if e.Kind == "open" {
					if name == "server" && top != "upstream" {
						serverID++
					}
					stack = append(stack, name)
				}
			}
		}
	}
	return
}

func verifDuplicates(defs []verifDef, kinds map[string]bool) []string {
	seen := map[string]string{}
	var out []string
	for _, d := range defs {
		if !kinds[d.kind] || d.name == "" {
			continue
		}
		k := d.kind + "|" + d.scope + "|" + d.name
		if prev, ok := seen[k]; ok {
			out = append(out, verifClean(fmt.Sprintf("%s:%s(%s)in:%s+%s", d.kind, d.name, d.scope, prev, d.file)))
			continue
		}
		seen[k] = d.file
	}
	sort.Strings(out)
	return out
}

// VerifWf renders a generated set of resources and reports what would stop NGINX from loading it.
//
// kv: plus=0|1  deps=ok|nosecrets|badsecrets|wrongsecrets|noendpoints|nopolicies
//
//	objs = item;item;...   item = fx:<fixture file>:<ns>:<name prefix>:<host tag>  |  min:<ing|vs|ts>:<ns>:<name>:<host>:<svc>
func VerifWf(kv map[string]string) string {
	plus := kv["plus"] == "1"
	var objs []interface{}
	nsUsed := map[string]string{} // ns -> host tag of the first fixture instance there (policies / routes are instantiated once per namespace)
	for _, it := range strings.Split(kv["objs"], ";") {
		p := strings.Split(it, ":")
		switch {
		case len(p) == 5 && p[0] == "fx":
			fx := verifFxByName(p[1])
			if fx == nil || (fx.PlusOnly && !plus) {
				continue
			}
			o, err := verifInstantiate(fx, p[2], p[3], p[4])
			if err != nil {
				return "fixture-error:" + verifClean(err.Error())
			}
			objs = append(objs, o)
			if _, ok := nsUsed[p[2]]; !ok {
				nsUsed[p[2]] = p[4]
			}
		case len(p) == 6 && p[0] == "min":
			if o := verifMinimal(p[1], p[2], p[3], p[4], p[5]); o != nil {
				objs = append(objs, o)
			}
		case len(p) == 5 && p[0] == "xd":
			objs = append(objs, verifCrossDelegation(p[1], p[2], p[3], p[4])...)
		}
	}
	if kv["deps"] != "nopolicies" {
		fxs, _ := verifFixtures()
		var nss []string
		for ns := range nsUsed {
			nss = append(nss, ns)
		}
		sort.Strings(nss)
		for _, ns := range nss {
			for _, f := range fxs {
				if (f.Kind != "policy" && f.Kind != "vsr") || (f.PlusOnly && !plus) {
					continue
				}
				o, err := verifInstantiate(f, ns, "", nsUsed[ns])
				if err == nil {
					objs = append(objs, o)
				}
			}
		}
	}
	var accepted []interface{}
	rejected := 0
	for _, o := range objs {
		if e := verifAccept(o, plus); e != "" {
			rejected++
			continue
		}
		accepted = append(accepted, o)
	}
	verifDepsMode = kv["deps"]
	files, _, err := verifRenderSet(plus, accepted, "")
	verifDepsMode = ""
	if err != nil {
		return "setup-error"
	}
	if d := os.Getenv("VERIF_DUMP_FILES"); d != "" {
		for n, c := range files {
			_ = os.WriteFile(filepath.Join(d, strings.ReplaceAll(n, "/", "_")), []byte(c), 0o600)
		}
	}
	malformed, arity, defs := verifAnalyse(files)
	dups := verifDuplicates(defs, map[string]bool{"upstream": true, "zone": true, "limit_req_zone": true, "keyval_zone": true, "cache_zone": true, "match": true,
		"named_location": true, "server_name": true, "keyval_variable": true, "jwt_claim_variable": true})
	locdups := verifDuplicates(defs, map[string]bool{"location": true})
	return fmt.Sprintf("objs=%d#rejected=%d#files=%d#defs=%d#malformed=%s#arity=%s#dups=%s#locdups=%s", len(objs), rejected, len(files), len(defs),
		strings.Join(malformed, ","), strings.Join(arity, ","), strings.Join(dups, ","), strings.Join(locdups, ","))
}

// verifDepsMode degrades the environment: what the resources refer to is missing or invalid.
var verifDepsMode string

// VerifInjWf replaces one string leaf by a benign variation (empty items, stray separators, empty string) and reports what the
// whole-output analysis says about the files: kv as VerifInj.
func VerifInjWf(kv map[string]string) string {
	plus := kv["plus"] == "1"
	fx := verifFxByName(kv["fx"])
	if fx == nil {
		return "no-fixture"
	}
	obj, err := fx.decode()
	if err != nil {
		return "fixture-error"
	}
	found := false
	for _, l := range verifLeaves(obj) {
		if verifClean(l.Path) == kv["path"] {
			l.Set(verifHexDecode(kv["val"]))
			found = true
			break
		}
	}
	if !found {
		return "no-leaf"
	}
	if e := verifAccept(obj, plus); e != "" {
		return "rej"
	}
	objs, err := verifFixtureSet(plus, fx.File, obj, fx)
	if err != nil {
		return "fixture-error"
	}
	host := ""
	if p, ok := obj.(*conf_v1.Policy); ok {
		host = p.Name
	}
	files, _, err := verifRenderSet(plus, objs, host)
	if err != nil {
		return "setup-error"
	}
	malformed, arity, defs := verifAnalyse(files)
	dups := verifDuplicates(defs, map[string]bool{"upstream": true, "zone": true, "limit_req_zone": true, "keyval_zone": true, "cache_zone": true, "match": true,
		"named_location": true, "server_name": true, "keyval_variable": true, "jwt_claim_variable": true})
	return fmt.Sprintf("acc#files=%d#defs=%d#malformed=%s#arity=%s#dups=%s", len(files), len(defs), strings.Join(malformed, ","), strings.Join(arity, ","), strings.Join(dups, ","))
}

// verifSkeleton: the event sequence of a file with the argument texts erased (kind, depth, number of arguments, directive name).
func verifSkeleton(content string) string {
	var b strings.Builder
	for _, e := range verifio.NgxLex(content) {
		fmt.Fprintf(&b, "%d:%s/%d;", e.Depth, e.Kind, len(e.Args))
	}
	return b.String()
}

func verifFirstDiff(a, b string) string {
	as, bs := strings.Split(a, ";"), strings.Split(b, ";")
	for i := 0; i < len(as) && i < len(bs); i++ {
		if as[i] != bs[i] {
			return fmt.Sprintf("event %d is %s, was %s", i, as[i], bs[i])
		}
	}
	return fmt.Sprintf("%d events, were %d", len(as), len(bs))
}
