//go:build verif

package k8s

import (
	"fmt"
	"sort"
	"strconv"
	"strings"

	conf_v1 "github.com/nginx/kubernetes-ingress/pkg/apis/configuration/v1"
	networking "k8s.io/api/networking/v1"
	metav1 "k8s.io/apimachinery/pkg/apis/meta/v1"
	"k8s.io/apimachinery/pkg/runtime"
	"k8s.io/client-go/tools/cache"
)

// verifRecRecorder records every event with the object it is about.
type verifRecRecorder struct{ evs []string }

func (r *verifRecRecorder) add(object runtime.Object, eventtype, reason string) {
	key := "?"
	switch o := object.(type) {
	case *conf_v1.TransportServer:
		key = "TransportServer/" + o.Namespace + "/" + o.Name
	case *conf_v1.VirtualServer:
		key = "VirtualServer/" + o.Namespace + "/" + o.Name
	case *conf_v1.VirtualServerRoute:
		key = "VirtualServerRoute/" + o.Namespace + "/" + o.Name
	case *conf_v1.GlobalConfiguration:
		key = "GlobalConfiguration/" + o.Namespace + "/" + o.Name
	case *networking.Ingress:
		key = "Ingress/" + o.Namespace + "/" + o.Name
	}
	r.evs = append(r.evs, key+"~"+eventtype+"~"+reason)
}

func (r *verifRecRecorder) Event(object runtime.Object, eventtype, reason, _ string) {
	r.add(object, eventtype, reason)
}

func (r *verifRecRecorder) Eventf(object runtime.Object, eventtype, reason, _ string, _ ...interface{}) {
	r.add(object, eventtype, reason)
}

func (r *verifRecRecorder) AnnotatedEventf(object runtime.Object, _ map[string]string, eventtype, reason, _ string, _ ...interface{}) {
	r.add(object, eventtype, reason)
}

func verifGcObj(spec string) *conf_v1.GlobalConfiguration {
	gc := &conf_v1.GlobalConfiguration{ObjectMeta: metav1.ObjectMeta{Namespace: "nginx-ingress", Name: "nginx-configuration"}}
	for _, l := range strings.Split(spec, "&") {
		f := strings.Split(l, ">")
		if len(f) != 3 {
			continue
		}
		port, _ := strconv.Atoi(f[1])
		gc.Spec.Listeners = append(gc.Spec.Listeners, conf_v1.Listener{Name: f[0], Port: port, Protocol: f[2]})
	}
	return gc
}

// VerifGcReport: a GlobalConfiguration event through the real syncGlobalConfiguration, and what was reported about the
// TransportServers it takes a listener from (C05).
//
// kv: plus=0|1  gc0=<listeners>  gc1=<listeners>|-  (- = the GlobalConfiguration is deleted)  ts=<name>@<listener>+...
//
//	listeners = name>port>PROTOCOL & ...
//
// output: per TransportServer  name:<active before>:<active after>:<events of the second GlobalConfiguration event about it, +-joined>
func VerifGcReport(kv map[string]string) string {
	w, err := verifNewLbc(kv["plus"] == "1", true)
	if err != nil {
		return "setup-error"
	}
	rec := &verifRecRecorder{}
	w.lbc.recorder = rec
	store := cache.NewStore(cache.DeletionHandlingMetaNamespaceKeyFunc)
	w.lbc.globalConfigurationLister = store
	for _, m := range []string{"+s1/0", "+e1.0/s1/a+b"} {
		w.apply(m)
	}
	w.drain()
	gcKey := "nginx-ingress/nginx-configuration"
	_ = store.Add(verifGcObj(kv["gc0"]))
	w.lbc.syncGlobalConfiguration(task{Kind: globalConfiguration, Key: gcKey})
	nsi := w.nsi()
	var names []string
	for i, t := range strings.Split(kv["ts"], "+") {
		f := strings.SplitN(t, "@", 2)
		if len(f) != 2 {
			continue
		}
		ts := verifLbcTS(f[0], "s1", 0)
		ts.Spec.Listener = conf_v1.TransportServerListener{Name: f[1], Protocol: "TCP"}
		ts.Spec.Host = ""
		ts.CreationTimestamp = metav1.Unix(int64(1700000000+i), 0)
		_ = nsi.transportServerLister.Add(ts)
		w.lbc.AddSyncQueue(ts)
		names = append(names, f[0])
	}
	w.drain()
	active := func() map[string]bool {
		out := map[string]bool{}
		for _, r := range w.lbc.configuration.GetResources() {
			if tsc, ok := r.(*TransportServerConfiguration); ok {
				out[tsc.TransportServer.Name] = true
			}
		}
		return out
	}
	before := active()
	rec.evs = nil
	if kv["gc1"] == "-" {
		_ = store.Delete(verifGcObj(kv["gc0"]))
	} else {
		_ = store.Update(verifGcObj(kv["gc1"]))
	}
	w.lbc.syncGlobalConfiguration(task{Kind: globalConfiguration, Key: gcKey})
	after := active()
	sort.Strings(names)
	var out []string
	b := func(x bool) string {
		if x {
			return "1"
		}
		return "0"
	}
	for _, n := range names {
		var evs []string
		for _, e := range rec.evs {
			if strings.HasPrefix(e, "TransportServer/d/"+n+"~") {
				evs = append(evs, strings.SplitN(e, "~", 2)[1])
			}
		}
		out = append(out, fmt.Sprintf("%s:%s:%s:%s", n, b(before[n]), b(after[n]), strings.Join(evs, "+")))
	}
	gcev := ""
	for _, e := range rec.evs {
		if strings.HasPrefix(e, "GlobalConfiguration/") {
			gcev = strings.SplitN(e, "~", 2)[1]
		}
	}
	return strings.Join(out, ",") + "#gc=" + gcev
}
