//go:build verif

package k8s

import (
	"fmt"

	"github.com/nginxinc/nginx-service-mesh/pkg/spiffe"
	"strconv"
	"strings"
	"sync"
	"sync/atomic"
)

// VerifRace runs the control-loop worker (bursts of store mutations through the real handlers, queue and sync) while one
// observer role calls, from its own goroutines, exactly what that component calls in production. The binary is built with
// -race: the race detector's reports go to the log file named by GORACE=log_path=...; this function only drives the schedule.
//
// kv: role=insight|telemetry|leader|informer|rotation|secrets|none  plus=0|1  rounds=<n>  dw=0|1 (weight changes dynamic reload)
//
//	insight    service-insight HTTP handlers: Configurator.UpstreamsForHost / StreamUpstreamsForName (+ the TransportServer lookup)
//	telemetry  the telemetry collector's getters: Configurator.Get*Counts, GetIngressAnnotations, SecretStore.GetSecretReferenceMap,
//	           Configuration.GetResources
//	leader     leader-election callback: status updates for all resources read through Configuration.GetResources*
//	informer   informer-side VirtualServer UpdateFunc with dynamic weight changes: haltIfVSConfigInvalid / processVSWeightChangesDynamicReload
//	rotation   certificate rotation: the rotation path takes syncLock like sync does
func VerifRace(kv map[string]string) string {
	plus := kv["plus"] == "1"
	rounds, _ := strconv.Atoi(kv["rounds"])
	if rounds == 0 {
		rounds = 30
	}
	w, err := verifNewLbc(plus, true)
	if err != nil {
		return "setup-error"
	}
	if kv["dw"] == "1" {
		w.lbc.weightChangesDynamicReload = true
	}
	for _, m := range []string{"+s1/0", "+s2/0", "+e1.0/s1/a+b", "+e2.0/s2/a", "+k1/htpasswd/0", "+p1/basic/k1/0", "+v1/s1/0/pol=p1", "+v2/s2/0", "+i1/s1/0", "+t1/s2/0"} {
		w.apply(m)
	}
	w.drain()
	var stop atomic.Bool
	var calls atomic.Int64
	var wg sync.WaitGroup
	observer := func(f func()) {
		wg.Add(1)
		go func() {
			defer wg.Done()
			defer func() { _ = recover() }()
			for !stop.Load() {
				f()
				calls.Add(1)
			}
		}()
	}
	cnf := w.lbc.configurator
	switch kv["role"] {
	case "insight":
		observer(func() { _ = cnf.UpstreamsForHost("v1.ex"); _ = cnf.UpstreamsForHost("i1.ex") })
		observer(func() { _ = cnf.StreamUpstreamsForName("t1") })
	case "telemetry":
		observer(func() {
			_ = cnf.GetIngressCounts()
			_, _ = cnf.GetVirtualServerCounts()
			_ = cnf.GetTransportServerCounts()
		})
		observer(func() { _ = cnf.GetIngressAnnotations(); _ = len(w.lbc.secretStore.GetSecretReferenceMap()) })
		observer(func() { _ = w.lbc.configuration.GetResources() })
	case "leader":
		observer(func() {
			_ = w.lbc.configuration.GetResourcesWithFilter(resourceFilter{Ingresses: true})
			_ = w.lbc.configuration.GetResourcesWithFilter(resourceFilter{VirtualServers: true})
			_ = w.lbc.configuration.FindResourcesForService("d", "s1")
		})
		// a second reader beside the worker's own reads (status syncs for the external service / IngressLink run concurrently with
		// the leader callback): readers must be able to overlap without writing anything
		observer(func() {
			_ = w.lbc.configuration.GetResources()
			_ = w.lbc.configuration.GetResourcesWithFilter(resourceFilter{TransportServers: true})
		})
	case "informer":
		var n atomic.Int64
		observer(func() {
			// a valid VirtualServer that differs from the stored one (as a weight-only update does): the change set is not empty
			k := n.Add(1)
			vs := verifLbcVS("v2", "s2", int(k%2), nil)
			vs.Generation = 1000 + k
			_ = w.lbc.haltIfVSConfigInvalid(vs)
		})
	case "rotation":
		// sync() takes syncLock only when certificate rotation is configured; a zero fetcher is enough for that test
		w.lbc.spiffeCertFetcher = &spiffe.X509CertFetcher{}
		observer(func() {
			// what syncSVIDRotation -> AddOrUpdateSpiffeCerts -> cnf.Reload touches, under the same lock
			w.lbc.syncLock.Lock()
			_ = w.lbc.configurator.VerifReloadsEnabled()
			w.lbc.syncLock.Unlock()
		})
	}
	// the worker
	muts := [][]string{
		{"+e1.0/s1/a"}, {"+v1/s1/1/pol=p1"}, {"+e1.0/s1/a+b", "+e2.0/s2/b", "+k1/htpasswd/1", "+i1/s1/1"}, {"-v2"}, {"+v2/s2/1"}, {"+t1/s2/1"},
		{"-i1"}, {"+i1/s1/0"}, {"+c/1", "+e3.0/s3/a", "+e2.0/s2/a"}, {"-t1"}, {"+t1/s2/0"}, {"+k1/htpasswd/2"}, {"+v1/s1/0/pol=p1"},
		// resources of another controller's class pass through the worker too (never admitted, edited, deleted)
		{"+v3/s1/0/cls=other"}, {"+v3/s1/1/cls=other", "+e1.0/s1/a+b"}, {"-v3"},
		// Secrets that come and go: every one of these inserts into / deletes from the secret store's map
		{"+k8/htpasswd/0", "+k9/jwk/0"}, {"+k8/htpasswd/1"}, {"-k9"}, {"-k8", "+k1/htpasswd/3"},
	}
	if kv["role"] == "secrets" {
		// the telemetry collector's Secrets() data point beside a worker that does little else than add, update and delete Secrets
		observer(func() { _ = len(w.lbc.secretStore.GetSecretReferenceMap()) })
		observer(func() { _ = len(w.lbc.secretStore.GetSecretReferenceMap()) })
	}
	for r := 0; r < rounds; r++ {
		for _, m := range muts[r%len(muts)] {
			w.apply(m)
		}
		w.drain()
		if kv["role"] == "secrets" {
			// what syncSecret does with the store, many times over (the store's methods are the worker's only way to it)
			for i := 0; i < 40; i++ {
				name := "kx" + strconv.Itoa(i%7)
				w.lbc.secretStore.AddOrUpdateSecret(verifLbcSecret(name, "htpasswd", r))
				if i%3 == 2 {
					w.lbc.secretStore.DeleteSecret("d/" + name)
				}
			}
		}
	}
	stop.Store(true)
	wg.Wait()
	return fmt.Sprintf("done#role=%s#observer_calls=%d#tasks=%d", kv["role"], calls.Load(), strings.Count(strings.Join(w.out, ","), "T|"))
}
