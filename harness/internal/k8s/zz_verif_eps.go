//go:build verif

package k8s

import (
	"sort"
	"strconv"
	"strings"

	conf_v1 "github.com/nginx/kubernetes-ingress/pkg/apis/configuration/v1"
	api_v1 "k8s.io/api/core/v1"
	discovery_v1 "k8s.io/api/discovery/v1"
	networking "k8s.io/api/networking/v1"
	metav1 "k8s.io/apimachinery/pkg/apis/meta/v1"
	"k8s.io/apimachinery/pkg/util/intstr"
	"k8s.io/client-go/tools/cache"
)

func verifLabels(s string) map[string]string {
	m := map[string]string{}
	for _, kv := range verifSplit(verifUnq(s), ",") {
		p := strings.SplitN(kv, "=", 2)
		m[p[0]] = p[1]
	}
	return m
}

// VerifEps resolves the endpoints of one backend with the real controller code.
// kv: plus, bname, bnum, sub(0|1), subsel, svc=<name>|<ns>|<ext or ->|<selector>|<ports>, slices, pods
//
//	ports  = name>port>tp>proto & ...          tp: - | i<num> | s<name>
//	slices = svc>ns>ports>eps & ...            ports: p+p (nil for a nil port); eps: a,b!t + ... (ready t|f|n)
//	pods   = name>ip>labels>cports & ...       labels k=v,k=v ; cports name/proto/num+...
func VerifEps(kv map[string]string) string {
	sf := strings.Split(kv["svc"], "|")
	svc := &api_v1.Service{ObjectMeta: metav1.ObjectMeta{Name: sf[0], Namespace: sf[1]}}
	if sf[2] != "-" {
		svc.Spec.Type = api_v1.ServiceTypeExternalName
		svc.Spec.ExternalName = sf[2]
	}
	svc.Spec.Selector = verifLabels(sf[3])
	for _, p := range verifSplit(sf[4], "&") {
		f := strings.Split(p, ">")
		n, _ := strconv.Atoi(f[1])
		sp := api_v1.ServicePort{Name: verifUnq(f[0]), Port: int32(n), Protocol: api_v1.Protocol(f[3])}
		switch {
		case f[2] == "-":
		case strings.HasPrefix(f[2], "i"):
			v, _ := strconv.Atoi(f[2][1:])
			sp.TargetPort = intstr.FromInt(v)
		default:
			sp.TargetPort = intstr.FromString(f[2][1:])
		}
		svc.Spec.Ports = append(svc.Spec.Ports, sp)
	}
	sliceStore := cache.NewStore(cache.DeletionHandlingMetaNamespaceKeyFunc)
	for i, s := range verifSplit(verifUnq(kv["slices"]), "&") {
		f := strings.Split(s, ">")
		es := &discovery_v1.EndpointSlice{ObjectMeta: metav1.ObjectMeta{Name: "es" + strconv.Itoa(i), Namespace: f[1],
			Labels: map[string]string{"kubernetes.io/service-name": f[0]}}}
		for _, p := range verifSplit(f[2], "+") {
			if p == "nil" {
				es.Ports = append(es.Ports, discovery_v1.EndpointPort{})
				continue
			}
			n, _ := strconv.Atoi(p)
			n32 := int32(n)
			es.Ports = append(es.Ports, discovery_v1.EndpointPort{Port: &n32})
		}
		for _, e := range verifSplit(f[3], "+") {
			p := strings.SplitN(e, "!", 2)
			ep := discovery_v1.Endpoint{Addresses: verifSplit(p[0], ",")}
			switch p[1] {
			case "t":
				b := true
				ep.Conditions.Ready = &b
			case "f":
				b := false
				ep.Conditions.Ready = &b
			}
			es.Endpoints = append(es.Endpoints, ep)
		}
		_ = sliceStore.Add(es)
	}
	podIdx := cache.NewIndexer(cache.DeletionHandlingMetaNamespaceKeyFunc, cache.Indexers{cache.NamespaceIndex: cache.MetaNamespaceIndexFunc})
	for _, s := range verifSplit(verifUnq(kv["pods"]), "&") {
		f := strings.Split(s, ">")
		pod := &api_v1.Pod{ObjectMeta: metav1.ObjectMeta{Name: f[0], Namespace: svc.Namespace, Labels: verifLabels(f[2])}}
		pod.Status.PodIP = f[1]
		c := api_v1.Container{Name: "c"}
		for _, cp := range verifSplit(verifUnq(f[3]), "+") {
			q := strings.Split(cp, "/")
			n, _ := strconv.Atoi(q[2])
			c.Ports = append(c.Ports, api_v1.ContainerPort{Name: verifUnq(q[0]), Protocol: api_v1.Protocol(q[1]), ContainerPort: int32(n)})
		}
		pod.Spec.Containers = []api_v1.Container{c}
		_ = podIdx.Add(pod)
	}
	svcStore := cache.NewStore(cache.DeletionHandlingMetaNamespaceKeyFunc)
	_ = svcStore.Add(svc)
	lbc := &LoadBalancerController{Logger: verifLogger, isNginxPlus: kv["plus"] == "1",
		namespacedInformers: map[string]*namespacedInformer{"": {
			endpointSliceLister: storeToEndpointSliceLister{sliceStore},
			podLister:           indexerToPodLister{podIdx},
			svcLister:           svcStore,
		}}}
	bnum, _ := strconv.Atoi(kv["bnum"])
	var eps []podEndpoint
	var err error
	if kv["sub"] == "1" {
		eps, err = lbc.getEndpointsForSubselector(svc.Namespace, conf_v1.Upstream{Service: svc.Name, Port: uint16(bnum), Subselector: verifLabels(kv["subsel"])})
	} else {
		backend := &networking.IngressBackend{Service: &networking.IngressServiceBackend{Name: svc.Name,
			Port: networking.ServiceBackendPort{Name: verifUnq(kv["bname"]), Number: int32(bnum)}}}
		eps, _, err = lbc.getEndpointsForIngressBackend(backend, svc)
	}
	if err != nil {
		m := err.Error()
		switch {
		case strings.Contains(m, "only available in NGINX Plus"):
			return "err externalOss"
		case strings.Contains(m, "no pods of service"):
			return "err noPods"
		case strings.Contains(m, "no suitable port"):
			return "err noNamedPort"
		case strings.Contains(m, "no port"):
			return "err noPort"
		case strings.Contains(m, "no endpointslices") || strings.Contains(m, "could not find endpointslices"):
			return "err noSlices"
		}
		return "err other:" + strings.ReplaceAll(m, " ", "_")
	}
	var out []string
	for _, e := range eps {
		out = append(out, e.Address)
	}
	sort.Strings(out)
	return "ok " + strings.Join(out, ",")
}
