//go:build verif

package k8s

import (
	"sort"
	"strconv"
	"strings"

	conf_v1 "github.com/nginx/kubernetes-ingress/pkg/apis/configuration/v1"
	"github.com/nginx/kubernetes-ingress/pkg/apis/configuration/validation"
	api_v1 "k8s.io/api/core/v1"
	discovery_v1 "k8s.io/api/discovery/v1"
	networking "k8s.io/api/networking/v1"
	metav1 "k8s.io/apimachinery/pkg/apis/meta/v1"
	"k8s.io/apimachinery/pkg/util/intstr"
	"k8s.io/client-go/tools/cache"
)

func verifLabels(s string) map[string]string {
	m := map[string]string{}
	for _, kv := range verifSplit(verifUnq(s), ",") {
		p := strings.SplitN(kv, "=", 2)
		m[p[0]] = p[1]
	}
	return m
}

// VerifEps resolves the endpoints of one backend with the real controller code.
// kv: plus, bname, bnum, sub(0|1), subsel, svc=<name>|<ns>|<ext or ->|<selector>|<ports>, slices, pods
//
//	ports  = name>port>tp>proto & ...          tp: - | i<num> | s<name>
//	slices = svc>ns>ports>eps & ...            ports: p+p (nil for a nil port); eps: a,b!t + ... (ready t|f|n)
//	pods   = name>ip>labels>cports & ...       labels k=v,k=v ; cports name/proto/num+...
func VerifEps(kv map[string]string) string {
	sf := strings.Split(kv["svc"], "|")
	svc := &api_v1.Service{ObjectMeta: metav1.ObjectMeta{Name: sf[0], Namespace: sf[1]}}
	if sf[2] != "-" {
		svc.Spec.Type = api_v1.ServiceTypeExternalName
		svc.Spec.ExternalName = sf[2]
	}
	svc.Spec.Selector = verifLabels(sf[3])
	for _, p := range verifSplit(sf[4], "&") {
		f := strings.Split(p, ">")
		n, _ := strconv.Atoi(f[1])
		sp := api_v1.ServicePort{Name: verifUnq(f[0]), Port: int32(n), Protocol: api_v1.Protocol(f[3])}
		switch {
		case f[2] == "-":
		case strings.HasPrefix(f[2], "i"):
			v, _ := strconv.Atoi(f[2][1:])
			sp.TargetPort = intstr.FromInt(v)
		default:
			sp.TargetPort = intstr.FromString(f[2][1:])
		}
		svc.Spec.Ports = append(svc.Spec.Ports, sp)
	}
	sliceStore := cache.NewStore(cache.DeletionHandlingMetaNamespaceKeyFunc)
	for i, s := range verifSplit(verifUnq(kv["slices"]), "&") {
		f := strings.Split(s, ">")
		es := &discovery_v1.EndpointSlice{ObjectMeta: metav1.ObjectMeta{Name: "es" + strconv.Itoa(i), Namespace: f[1],
			Labels: map[string]string{"kubernetes.io/service-name": f[0]}}}
		for _, p := range verifSplit(f[2], "+") {
			if p == "nil" {
				es.Ports = append(es.Ports, discovery_v1.EndpointPort{})
				continue
			}
			n, _ := strconv.Atoi(p)
			n32 := int32(n)
			es.Ports = append(es.Ports, discovery_v1.EndpointPort{Port: &n32})
		}
		for _, e := range verifSplit(f[3], "+") {
			p := strings.SplitN(e, "!", 2)
			ep := discovery_v1.Endpoint{Addresses: verifSplit(p[0], ",")}
			switch p[1] {
			case "t":
				b := true
				ep.Conditions.Ready = &b
			case "f":
				b := false
				ep.Conditions.Ready = &b
			}
			es.Endpoints = append(es.Endpoints, ep)
		}
		_ = sliceStore.Add(es)
	}
	podIdx := cache.NewIndexer(cache.DeletionHandlingMetaNamespaceKeyFunc, cache.Indexers{cache.NamespaceIndex: cache.MetaNamespaceIndexFunc})
	for _, s := range verifSplit(verifUnq(kv["pods"]), "&") {
		f := strings.Split(s, ">")
		pod := &api_v1.Pod{ObjectMeta: metav1.ObjectMeta{Name: f[0], Namespace: svc.Namespace, Labels: verifLabels(f[2])}}
		pod.Status.PodIP = f[1]
		// containers are separated by `~` (a port name is unique per container only, so a sidecar may reuse a name under another protocol)
		for ci, cs := range strings.Split(verifUnq(f[3]), "~") {
			c := api_v1.Container{Name: "c" + strconv.Itoa(ci)}
			for _, cp := range verifSplit(cs, "+") {
				q := strings.Split(cp, "/")
				n, _ := strconv.Atoi(q[2])
				c.Ports = append(c.Ports, api_v1.ContainerPort{Name: verifUnq(q[0]), Protocol: api_v1.Protocol(q[1]), ContainerPort: int32(n)})
			}
			pod.Spec.Containers = append(pod.Spec.Containers, c)
		}
		_ = podIdx.Add(pod)
	}
	svcStore := cache.NewStore(cache.DeletionHandlingMetaNamespaceKeyFunc)
	_ = svcStore.Add(svc)
	lbc := &LoadBalancerController{Logger: verifLogger, isNginxPlus: kv["plus"] == "1",
		namespacedInformers: map[string]*namespacedInformer{"": {
			endpointSliceLister: storeToEndpointSliceLister{sliceStore},
			podLister:           indexerToPodLister{podIdx},
			svcLister:           svcStore,
		}}}
	bnum, _ := strconv.Atoi(kv["bnum"])
	var eps []podEndpoint
	var err error
	if kv["sub"] == "1" {
		eps, err = lbc.getEndpointsForSubselector(svc.Namespace, conf_v1.Upstream{Service: svc.Name, Port: uint16(bnum), Subselector: verifLabels(kv["subsel"])})
	} else {
		backend := &networking.IngressBackend{Service: &networking.IngressServiceBackend{Name: svc.Name,
			Port: networking.ServiceBackendPort{Name: verifUnq(kv["bname"]), Number: int32(bnum)}}}
		eps, _, err = lbc.getEndpointsForIngressBackend(backend, svc)
	}
	if err != nil {
		m := err.Error()
		switch {
		case strings.Contains(m, "only available in NGINX Plus"):
			return "err externalOss"
		case strings.Contains(m, "no pods of service"):
			return "err noPods"
		case strings.Contains(m, "no suitable port"):
			return "err noNamedPort"
		case strings.Contains(m, "no port"):
			return "err noPort"
		case strings.Contains(m, "no endpointslices") || strings.Contains(m, "could not find endpointslices"):
			return "err noSlices"
		}
		return "err other:" + strings.ReplaceAll(m, " ", "_")
	}
	var out []string
	for _, e := range eps {
		out = append(out, e.Address)
	}
	sort.Strings(out)
	return "ok " + strings.Join(out, ",")
}

// VerifResEps resolves every backend / upstream of ONE resource with the real create*Ex glue and prints, per backend in declared
// order, the server list it was given.
// kv: plus, kind=ing|vs|vsr|ts, cip=0|1 (use-cluster-ip, Ingress only),
//
//	svcs = s0:<state>&s1:<state>...   state: r<k> (k ready + 1 not-ready endpoint), n (slice, nothing ready), e (no slice),
//	                                  m (no Service object; a stale slice with a ready endpoint is left behind), x (ExternalName)
//	be   = [D:]si,sj,...              backends in order ("D:" = the Ingress default backend); for vs/vsr/ts "si+sj" = upstream si with backup sj
func VerifResEps(kv map[string]string) string {
	plus := kv["plus"] == "1"
	svcStore := cache.NewStore(cache.DeletionHandlingMetaNamespaceKeyFunc)
	sliceStore := cache.NewStore(cache.DeletionHandlingMetaNamespaceKeyFunc)
	podIdx := cache.NewIndexer(cache.DeletionHandlingMetaNamespaceKeyFunc, cache.Indexers{cache.NamespaceIndex: cache.MetaNamespaceIndexFunc})
	for _, s := range verifSplit(kv["svcs"], "&") {
		p := strings.SplitN(s, ":", 2)
		name, state := p[0], p[1]
		i, _ := strconv.Atoi(name[1:])
		if state != "m" {
			svc := &api_v1.Service{ObjectMeta: metav1.ObjectMeta{Name: name, Namespace: "d"}}
			svc.Spec.Ports = []api_v1.ServicePort{{Port: 80, TargetPort: intstr.FromInt(8080), Protocol: api_v1.ProtocolTCP}}
			svc.Spec.ClusterIP = "10.96.0." + strconv.Itoa(i+1)
			if state == "x" {
				svc.Spec.Type = api_v1.ServiceTypeExternalName
				svc.Spec.ExternalName = "ext" + strconv.Itoa(i) + ".example.com"
				svc.Spec.ClusterIP = ""
			}
			_ = svcStore.Add(svc)
		}
		if state == "e" || state == "x" {
			continue
		}
		n32 := int32(8080)
		es := &discovery_v1.EndpointSlice{ObjectMeta: metav1.ObjectMeta{Name: "es-" + name, Namespace: "d", Labels: map[string]string{"kubernetes.io/service-name": name}},
			Ports: []discovery_v1.EndpointPort{{Port: &n32}}}
		k := 0
		if state[0] == 'r' {
			k, _ = strconv.Atoi(state[1:])
		}
		if state == "m" {
			k = 1
		}
		yes, no := true, false
		for j := 0; j < k; j++ {
			es.Endpoints = append(es.Endpoints, discovery_v1.Endpoint{Addresses: []string{"10." + strconv.Itoa(i+1) + ".0." + strconv.Itoa(j+1)}, Conditions: discovery_v1.EndpointConditions{Ready: &yes}})
		}
		es.Endpoints = append(es.Endpoints, discovery_v1.Endpoint{Addresses: []string{"10." + strconv.Itoa(i+1) + ".9.9"}, Conditions: discovery_v1.EndpointConditions{Ready: &no}})
		_ = sliceStore.Add(es)
	}
	lbc := &LoadBalancerController{Logger: verifLogger, isNginxPlus: plus, ingressClass: "nginx",
		namespacedInformers: map[string]*namespacedInformer{"": {
			endpointSliceLister: storeToEndpointSliceLister{sliceStore},
			podLister:           indexerToPodLister{podIdx},
			svcLister:           svcStore,
			policyLister:        cache.NewStore(cache.DeletionHandlingMetaNamespaceKeyFunc),
		}}}
	lbc.configuration = NewConfiguration(lbc.HasCorrectIngressClass, plus, false, false, false,
		validation.NewVirtualServerValidator(validation.IsPlus(plus)), validation.NewGlobalConfigurationValidator(map[int]bool{}),
		validation.NewTransportServerValidator(true, false, plus), true, false, false, false)
	var keys []string
	var got map[string][]string
	bes := verifSplit(kv["be"], ",")
	bport := uint16(80)
	switch kv["kind"] {
	case "ing":
		pt := networking.PathTypePrefix
		ing := &networking.Ingress{ObjectMeta: metav1.ObjectMeta{Namespace: "d", Name: "i", Annotations: map[string]string{}}}
		if kv["cip"] == "1" {
			ing.Annotations["nginx.org/use-cluster-ip"] = "true"
		}
		rule := networking.IngressRule{Host: "a.ex"}
		rule.HTTP = &networking.HTTPIngressRuleValue{}
		for n, b := range bes {
			backend := networking.IngressBackend{Service: &networking.IngressServiceBackend{Name: strings.TrimPrefix(b, "D:"), Port: networking.ServiceBackendPort{Number: 80}}}
			keys = append(keys, backend.Service.Name+"80")
			if strings.HasPrefix(b, "D:") {
				ing.Spec.DefaultBackend = &backend
				continue
			}
			rule.HTTP.Paths = append(rule.HTTP.Paths, networking.HTTPIngressPath{Path: "/p" + strconv.Itoa(n), PathType: &pt, Backend: backend})
		}
		// two rules: the paths are split between two hosts so that the loop over rules is exercised as well
		if len(rule.HTTP.Paths) > 2 {
			second := networking.IngressRule{Host: "b.ex"}
			second.HTTP = &networking.HTTPIngressRuleValue{Paths: rule.HTTP.Paths[2:]}
			rule.HTTP.Paths = rule.HTTP.Paths[:2]
			ing.Spec.Rules = []networking.IngressRule{rule, second}
		} else {
			ing.Spec.Rules = []networking.IngressRule{rule}
		}
		ex := lbc.createIngressEx(ing, map[string]bool{"a.ex": true, "b.ex": true}, nil)
		got = ex.Endpoints
	case "vs", "vsr":
		var ups []conf_v1.Upstream
		for n, b := range bes {
			p := strings.SplitN(b, "+", 2)
			u := conf_v1.Upstream{Name: "u" + strconv.Itoa(n), Service: p[0], Port: 80}
			keys = append(keys, "d/"+p[0]+":80")
			if len(p) == 2 {
				u.Backup = p[1]
				u.BackupPort = &bport
				keys = append(keys, "d/"+p[1]+":80")
			}
			ups = append(ups, u)
		}
		vs := &conf_v1.VirtualServer{ObjectMeta: metav1.ObjectMeta{Namespace: "d", Name: "v"}}
		vs.Spec.Host = "a.ex"
		var vsrs []*conf_v1.VirtualServerRoute
		if kv["kind"] == "vs" {
			vs.Spec.Upstreams = ups
		} else {
			vsr := &conf_v1.VirtualServerRoute{ObjectMeta: metav1.ObjectMeta{Namespace: "d", Name: "r"}}
			vsr.Spec.Host = "a.ex"
			vsr.Spec.Upstreams = ups
			vsrs = append(vsrs, vsr)
		}
		ex := lbc.createVirtualServerEx(vs, vsrs)
		got = ex.Endpoints
	case "ts":
		ts := &conf_v1.TransportServer{ObjectMeta: metav1.ObjectMeta{Namespace: "d", Name: "t"}}
		for n, b := range bes {
			p := strings.SplitN(b, "+", 2)
			u := conf_v1.TransportServerUpstream{Name: "u" + strconv.Itoa(n), Service: p[0], Port: 80}
			keys = append(keys, "d/"+p[0]+":80")
			if len(p) == 2 {
				u.Backup = p[1]
				u.BackupPort = &bport
				keys = append(keys, "d/"+p[1]+":80")
			}
			ts.Spec.Upstreams = append(ts.Spec.Upstreams, u)
		}
		ex := lbc.createTransportServerEx(ts, 5000, "", "")
		got = ex.Endpoints
	default:
		return "bad-kind"
	}
	var out []string
	for n, k := range keys {
		v, ok := got[k]
		if !ok {
			out = append(out, "b"+strconv.Itoa(n)+"=ABSENT")
			continue
		}
		v = append([]string(nil), v...)
		sort.Strings(v)
		out = append(out, "b"+strconv.Itoa(n)+"="+strings.Join(v, ","))
	}
	return strings.Join(out, ";")
}
