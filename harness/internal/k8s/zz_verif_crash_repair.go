//go:build verif

package k8s

import (
	"strconv"
	"strings"

	conf_v1 "github.com/nginx/kubernetes-ingress/pkg/apis/configuration/v1"
	api_v1 "k8s.io/api/core/v1"
	networking "k8s.io/api/networking/v1"
)

// The repairs below make a randomly filled object satisfy the cross-field rules that the API server (built-in Ingress
// validation, CRD schemas) and the most basic controller validation impose, so that a useful share of the generated objects
// is accepted and reaches arbitration and generation. They never add anything an API server would refuse.

func verifRepairBackend(b *networking.IngressBackend, r *verifRng) {
	// exactly one of service / resource
	if b.Service != nil && b.Resource != nil {
		if r.below(4) == 0 {
			b.Service = nil
		} else {
			b.Resource = nil
		}
	}
	if b.Service == nil && b.Resource == nil {
		if r.below(4) == 0 {
			b.Resource = &api_v1.TypedLocalObjectReference{Kind: "StorageBucket", Name: "b1"}
		} else {
			b.Service = &networking.IngressServiceBackend{Name: "s1", Port: networking.ServiceBackendPort{Number: 80}}
		}
	}
	if b.Resource != nil {
		if b.Resource.Kind == "" {
			b.Resource.Kind = "StorageBucket"
		}
		if b.Resource.Name == "" {
			b.Resource.Name = "b1"
		}
	}
	if b.Service != nil {
		if b.Service.Name == "" || b.Service.Name == "x" {
			b.Service.Name = "s1"
		}
		p := &b.Service.Port
		if p.Name != "" && p.Number != 0 {
			if r.below(2) == 0 {
				p.Name = ""
			} else {
				p.Number = 0
			}
		}
		if p.Name == "" && (p.Number <= 0 || p.Number > 65535) {
			p.Number = 80
		}
		if p.Name != "" {
			p.Name = "p0"
		}
	}
}

func verifRepairIngress(ing *networking.Ingress, r *verifRng) {
	if ing.Spec.DefaultBackend != nil {
		verifRepairBackend(ing.Spec.DefaultBackend, r)
	}
	types := []networking.PathType{networking.PathTypeExact, networking.PathTypePrefix, networking.PathTypeImplementationSpecific}
	for i := range ing.Spec.Rules {
		rule := &ing.Spec.Rules[i]
		if r.below(6) != 0 && (rule.Host == "" || rule.Host == "*.ex") {
			rule.Host = ing.Name + strconv.Itoa(i) + ".ex"
		}
		if rule.HTTP == nil {
			continue
		}
		if len(rule.HTTP.Paths) == 0 {
			rule.HTTP.Paths = []networking.HTTPIngressPath{{}}
		}
		for j := range rule.HTTP.Paths {
			p := &rule.HTTP.Paths[j]
			pt := types[r.below(3)]
			p.PathType = &pt
			if pt != networking.PathTypeImplementationSpecific && (p.Path == "" || p.Path[0] != '/') {
				p.Path = "/p" + strconv.Itoa(j)
			}
			verifRepairBackend(&p.Backend, r)
		}
	}
	if ing.Spec.DefaultBackend == nil && len(ing.Spec.Rules) == 0 {
		ing.Spec.Rules = []networking.IngressRule{{Host: ing.Name + ".ex"}}
	}
}

func verifRepairAction(a *conf_v1.Action, ups []string, r *verifRng) {
	switch {
	case a.Proxy != nil && r.below(3) != 0:
		a.Pass, a.Redirect, a.Return = "", nil, nil
		a.Proxy.Upstream = ups[r.below(len(ups))]
	case a.Redirect != nil && r.below(2) == 0:
		a.Pass, a.Return, a.Proxy = "", nil, nil
		if a.Redirect.URL == "" {
			a.Redirect.URL = "http://x.ex"
		}
		if a.Redirect.Code == 0 || a.Redirect.Code == 200 || a.Redirect.Code == 99 {
			a.Redirect.Code = 301
		}
	case a.Return != nil && r.below(2) == 0:
		a.Pass, a.Redirect, a.Proxy = "", nil, nil
		if a.Return.Body == "" {
			a.Return.Body = "ok"
		}
		if a.Return.Code == 99 {
			a.Return.Code = 200
		}
	default:
		a.Redirect, a.Return, a.Proxy = nil, nil, nil
		a.Pass = ups[r.below(len(ups))]
	}
}

func verifRepairSplits(sp []conf_v1.Split, ups []string, r *verifRng) []conf_v1.Split {
	for len(sp) < 2 {
		sp = append(sp, conf_v1.Split{})
	}
	sp = sp[:2]
	sp[0].Weight, sp[1].Weight = 30, 70
	if r.below(4) == 0 {
		sp[0].Weight, sp[1].Weight = 0, 100
	}
	for i := range sp {
		if sp[i].Weight == 0 && r.below(2) == 0 { // `action` is optional in the CRD schema
			sp[i].Action = nil
			continue
		}
		if sp[i].Action == nil {
			if r.below(5) == 0 {
				continue
			}
			sp[i].Action = &conf_v1.Action{}
		}
		verifRepairAction(sp[i].Action, ups, r)
	}
	return sp
}

func verifRepairRoutes(routes []conf_v1.Route, ups []string, prefix string, allowRoute bool, r *verifRng) []conf_v1.Route {
	if len(routes) == 0 {
		// the CRDs carry no minItems: an empty route list is admissible (one time in three it is kept)
		if r.below(3) == 0 {
			return routes
		}
		routes = []conf_v1.Route{{}}
	}
	for i := range routes {
		rt := &routes[i]
		if rt.Path == "" || rt.Path == "/" || rt.Path[0] == '/' {
			rt.Path = prefix + "/p" + strconv.Itoa(i)
		} else if rt.Path[0] == '~' {
			rt.Path = "~ ^" + prefix + "/r" + strconv.Itoa(i)
		} else {
			rt.Path = "=" + prefix + "/e" + strconv.Itoa(i)
		}
		for k := range rt.Policies {
			rt.Policies[k].Name = []string{"p1", "px", "nope"}[r.below(3)]
			rt.Policies[k].Namespace = ""
		}
		rt.Route = ""
		switch {
		case len(rt.Splits) > 0 && r.below(2) == 0:
			rt.Action, rt.Matches = nil, nil
			rt.Splits = verifRepairSplits(rt.Splits, ups, r)
		case len(rt.Matches) > 0 && r.below(2) == 0:
			rt.Splits = nil
			if rt.Action == nil {
				rt.Action = &conf_v1.Action{}
			}
			verifRepairAction(rt.Action, ups, r)
			for m := range rt.Matches {
				mt := &rt.Matches[m]
				if len(mt.Conditions) == 0 {
					mt.Conditions = []conf_v1.Condition{{}}
				}
				for c := range mt.Conditions {
					cd := &mt.Conditions[c]
					which := r.below(4)
					h, ck, ar, vr := "x-h", "ck", "ar", "$request_method"
					cd.Header, cd.Cookie, cd.Argument, cd.Variable = "", "", "", ""
					switch which {
					case 0:
						cd.Header = h
					case 1:
						cd.Cookie = ck
					case 2:
						cd.Argument = ar
					default:
						cd.Variable = vr
					}
				}
				if len(mt.Splits) > 0 && r.below(2) == 0 {
					mt.Action = nil
					mt.Splits = verifRepairSplits(mt.Splits, ups, r)
				} else {
					mt.Splits = nil
					if mt.Action == nil {
						mt.Action = &conf_v1.Action{}
					}
					verifRepairAction(mt.Action, ups, r)
				}
			}
		default:
			rt.Splits, rt.Matches = nil, nil
			if rt.Action == nil {
				rt.Action = &conf_v1.Action{}
			}
			verifRepairAction(rt.Action, ups, r)
		}
		for e := range rt.ErrorPages {
			ep := &rt.ErrorPages[e]
			if len(ep.Codes) == 0 {
				ep.Codes = []int{502}
			}
			for c := range ep.Codes {
				ep.Codes[c] = 500 + c
			}
			if ep.Redirect != nil && ep.Return != nil {
				ep.Return = nil
			}
			if ep.Redirect == nil && ep.Return == nil {
				ep.Return = &conf_v1.ErrorPageReturn{ActionReturn: conf_v1.ActionReturn{Code: 200, Body: "x"}}
			}
			if ep.Redirect != nil {
				ep.Redirect.URL, ep.Redirect.Code = "http://x.ex", 301
			}
			if ep.Return != nil {
				if ep.Return.Body == "" {
					ep.Return.Body = "x"
				}
				if ep.Return.Code == 99 || ep.Return.Code == 0 {
					ep.Return.Code = 200
				}
			}
		}
	}
	return routes
}

func verifRepairUpstreams(us []conf_v1.Upstream, r *verifRng) ([]conf_v1.Upstream, []string) {
	if len(us) == 0 {
		us = []conf_v1.Upstream{{}}
	}
	var names []string
	for i := range us {
		u := &us[i]
		u.Name = "u" + strconv.Itoa(i+1)
		names = append(names, u.Name)
		u.Service = []string{"s1", "s2", "s1"}[r.below(3)]
		if u.Port == 0 {
			u.Port = 80
		}
		if u.Backup != "" && u.BackupPort == nil {
			p := uint16(80)
			u.BackupPort = &p
		}
		if u.Backup == "" {
			u.BackupPort = nil
		}
		if r.below(3) != 0 {
			u.Subselector = nil
		}
		if u.Type == "grpc" && r.below(2) == 0 {
			u.Type = ""
		}
		if r.below(20) != 0 {
			u.ProxyNextUpstream = []string{"", "error timeout", "http_502 non_idempotent"}[r.below(3)]
			if strings.HasPrefix(u.LBMethod, "hash") || strings.HasPrefix(u.LBMethod, "random") {
				u.Backup, u.BackupPort = "", nil
			}
			if hc := u.HealthCheck; hc != nil {
				if u.Type != "grpc" {
					hc.GRPCStatus, hc.GRPCService = nil, ""
				}
				if hc.Persistent {
					hc.Mandatory = true
				}
				if hc.Port < 0 || hc.Port > 65535 {
					hc.Port = 0
				}
				if hc.Path != "" && hc.Path[0] != '/' {
					hc.Path = "/hc"
				}
				if hc.StatusMatch != "" {
					hc.StatusMatch = "200"
				}
			}
			if b := u.ProxyBuffers; b != nil {
				b.Number, b.Size = 4, "8k"
			}
			if q := u.Queue; q != nil {
				q.Size = 10
			}
			if sc := u.SessionCookie; sc != nil {
				sc.Path = []string{"", "/x"}[r.below(2)]
				if sc.Name == "" {
					sc.Name = "srv"
				}
			}
		}
	}
	return us, names
}

func verifRepairVS(vs *conf_v1.VirtualServer, r *verifRng) {
	s := &vs.Spec
	s.IngressClass = "nginx"
	if r.below(8) != 0 {
		s.Host = "x.ex"
	}
	var ups []string
	s.Upstreams, ups = verifRepairUpstreams(s.Upstreams, r)
	s.Routes = verifRepairRoutes(s.Routes, ups, "", true, r)
	for k := range s.Policies {
		s.Policies[k].Name = []string{"p1", "px", "nope"}[r.below(3)]
		s.Policies[k].Namespace = ""
	}
	if r.below(2) == 0 {
		s.Listener = nil
	}
	if r.below(2) == 0 {
		s.ExternalDNS = conf_v1.ExternalDNS{}
	}
	if s.TLS != nil {
		if r.below(20) != 0 {
			s.TLS.CertManager = nil
		}
		if s.TLS.Redirect != nil {
			s.TLS.Redirect.BasedOn = []string{"", "scheme", "x-forwarded-proto"}[r.below(3)]
			if s.TLS.Redirect.Code != nil {
				c := 301
				s.TLS.Redirect.Code = &c
			}
		}
	}
	if r.below(20) != 0 {
		s.ExternalDNS = conf_v1.ExternalDNS{}
		s.Listener = nil
	}
	s.Dos = ""
	for i := range s.Routes {
		s.Routes[i].Dos = ""
	}
}

func verifRepairVSR(vsr *conf_v1.VirtualServerRoute, host, prefix string, r *verifRng) {
	s := &vsr.Spec
	s.IngressClass = "nginx"
	s.Host = host
	var ups []string
	s.Upstreams, ups = verifRepairUpstreams(s.Upstreams, r)
	s.Subroutes = verifRepairRoutes(s.Subroutes, ups, prefix, false, r)
	for i := range s.Subroutes {
		s.Subroutes[i].Dos = ""
	}
}

func verifRepairTS(ts *conf_v1.TransportServer, r *verifRng) {
	s := &ts.Spec
	s.IngressClass = "nginx"
	if r.below(4) != 0 {
		s.Listener = conf_v1.TransportServerListener{Name: conf_v1.TLSPassthroughListenerName, Protocol: conf_v1.TLSPassthroughListenerProtocol}
		if r.below(6) != 0 {
			s.Host = "t.ex"
		}
		if r.below(3) != 0 {
			s.TLS = nil
		}
	} else {
		// a listener of the GlobalConfiguration (two times in three; otherwise whatever the filler produced: an unknown listener)
		switch r.below(3) {
		case 0:
			s.Listener = conf_v1.TransportServerListener{Name: "tcp1", Protocol: "TCP"}
		case 1:
			s.Listener = conf_v1.TransportServerListener{Name: "udp1", Protocol: "UDP"}
			s.Host = ""
		}
		// TLS termination: nothing, an empty block (`tls: {}` is admissible without a host), a Secret that exists / does not
		switch r.below(4) {
		case 0:
			s.TLS = nil
		case 1:
			s.TLS = &conf_v1.TransportServerTLS{}
		case 2:
			s.TLS = &conf_v1.TransportServerTLS{Secret: "k5"}
		default:
			s.TLS = &conf_v1.TransportServerTLS{Secret: "nosuch"}
		}
		if s.TLS == nil || s.TLS.Secret == "" || s.Listener.Protocol == "UDP" {
			s.Host = ""
		} else if r.below(2) == 0 {
			s.Host = "tt.ex"
		}
	}
	if len(s.Upstreams) == 0 && r.below(3) != 0 {
		s.Upstreams = []conf_v1.TransportServerUpstream{{}}
	}
	for i := range s.Upstreams {
		u := &s.Upstreams[i]
		u.Name = "u" + strconv.Itoa(i+1)
		u.Service = "s1"
		if u.Port == 0 || u.Port > 65535 {
			u.Port = 80
		}
		if u.Backup != "" && u.BackupPort == nil {
			p := uint16(80)
			u.BackupPort = &p
		}
		if u.Backup == "" {
			u.BackupPort = nil
		}
	}
	if s.Action == nil && r.below(6) != 0 {
		s.Action = &conf_v1.TransportServerAction{}
	}
	if s.Action != nil {
		s.Action.Pass = "u1"
	}
	if r.below(20) != 0 {
		s.ServerSnippets, s.StreamSnippets = "", ""
		if s.UpstreamParameters != nil && s.Listener.Protocol != "UDP" {
			s.UpstreamParameters.UDPRequests, s.UpstreamParameters.UDPResponses = nil, nil
		}
		if s.Listener.Protocol == conf_v1.TLSPassthroughListenerProtocol {
			s.TLS = nil
		}
		for i := range s.Upstreams {
			if strings.Contains(s.Upstreams[i].LoadBalancingMethod, "$") {
				s.Upstreams[i].LoadBalancingMethod = "hash ${remote_addr}"
			}
			if strings.HasPrefix(s.Upstreams[i].LoadBalancingMethod, "hash") {
				s.Upstreams[i].Backup, s.Upstreams[i].BackupPort = "", nil
			}
			if hc := s.Upstreams[i].HealthCheck; hc != nil && (hc.Port < 0 || hc.Port > 65535) {
				hc.Port = 0
			}
		}
	}
}

func verifRepairPolicy(p *conf_v1.Policy, r *verifRng) {
	s := &p.Spec
	s.IngressClass = "nginx"
	// exactly one policy kind, as the CRD's validation requires: keep one of the filled ones
	type slot struct{ clear func() }
	var filled []int
	ptrs := []bool{s.AccessControl != nil, s.RateLimit != nil, s.JWTAuth != nil, s.BasicAuth != nil, s.IngressMTLS != nil, s.EgressMTLS != nil, s.OIDC != nil, s.WAF != nil, s.APIKey != nil}
	for i, ok := range ptrs {
		if ok {
			filled = append(filled, i)
		}
	}
	keep := -1
	if len(filled) > 0 {
		keep = filled[r.below(len(filled))]
	}
	if keep != 0 {
		s.AccessControl = nil
	}
	if keep != 1 {
		s.RateLimit = nil
	}
	if keep != 2 {
		s.JWTAuth = nil
	}
	if keep != 3 {
		s.BasicAuth = nil
	}
	if keep != 4 {
		s.IngressMTLS = nil
	}
	if keep != 5 {
		s.EgressMTLS = nil
	}
	if keep != 6 {
		s.OIDC = nil
	}
	if keep != 7 {
		s.WAF = nil
	}
	if keep != 8 {
		s.APIKey = nil
	}
	if keep == -1 {
		s.BasicAuth = &conf_v1.BasicAuth{Realm: "r", Secret: "k1"}
	}
	if s.RateLimit != nil {
		if r.below(4) != 0 {
			// every spelling of a rate the validator admits (it takes the unit in either case; the generator's own parser does not)
			s.RateLimit.Rate = []string{"5r/s", "10r/S", "30r/M", "1r/m", "100r/s", "7r/M"}[r.below(6)]
		}
		if r.below(2) == 0 {
			s.RateLimit.Scale = true
		}
		if s.RateLimit.ZoneSize == "" {
			s.RateLimit.ZoneSize = "10M"
		}
		if s.RateLimit.Key == "" {
			s.RateLimit.Key = "${binary_remote_addr}"
		}
		if r.below(6) != 0 {
			// mostly a policy the validator accepts (the shape-directed fill alone is rejected nine times in ten, and a rejected
			// policy exercises nothing behind the validator): legal key, sizes, log level, reject code; no Plus-only condition
			rl := s.RateLimit
			rl.Key = []string{"${binary_remote_addr}", "${request_uri}"}[r.below(2)]
			rl.ZoneSize = []string{"10M", "512k"}[r.below(2)]
			rl.LogLevel = []string{"", "warn", "error"}[r.below(3)]
			if rl.RejectCode != nil {
				c := []int{429, 503}[r.below(2)]
				rl.RejectCode = &c
			}
			if rl.Delay != nil {
				d := 1 + r.below(5)
				rl.Delay = &d
			}
			if rl.Burst != nil {
				b := 1 + r.below(9)
				rl.Burst = &b
			}
			rl.Condition = nil
		}
	}
}
