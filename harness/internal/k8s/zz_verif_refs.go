//go:build verif

package k8s

import (
	"fmt"
	"sort"
	"strings"

	"github.com/nginx/kubernetes-ingress/internal/configs"
	"github.com/nginx/kubernetes-ingress/internal/k8s/appprotect"
	"github.com/nginx/kubernetes-ingress/internal/k8s/appprotectdos"
	"github.com/nginx/kubernetes-ingress/internal/k8s/secrets"
	conf_v1 "github.com/nginx/kubernetes-ingress/pkg/apis/configuration/v1"
	"github.com/nginx/kubernetes-ingress/pkg/apis/configuration/validation"
	dos_v1beta1 "github.com/nginx/kubernetes-ingress/pkg/apis/dos/v1beta1"
	api_v1 "k8s.io/api/core/v1"
	networking "k8s.io/api/networking/v1"
	metav1 "k8s.io/apimachinery/pkg/apis/meta/v1"
	"k8s.io/apimachinery/pkg/apis/meta/v1/unstructured"
	"k8s.io/apimachinery/pkg/types"
	"k8s.io/client-go/tools/cache"
)

// ---- recording dependencies: every lookup made while an extended resource is built is logged

type verifRecStore struct {
	cache.Store
	kind string
	log  *[]string
}

func (s verifRecStore) GetByKey(key string) (interface{}, bool, error) {
	*s.log = append(*s.log, s.kind+":"+key)
	return s.Store.GetByKey(key)
}

type verifRecSecrets struct{ log *[]string }

func (s *verifRecSecrets) AddOrUpdateSecret(_ *api_v1.Secret) {}
func (s *verifRecSecrets) DeleteSecret(_ string)              {}
func (s *verifRecSecrets) GetSecretReferenceMap() map[string]*secrets.SecretReference {
	return map[string]*secrets.SecretReference{}
}

func (s *verifRecSecrets) GetSecret(key string) *secrets.SecretReference {
	*s.log = append(*s.log, "secret:"+key)
	p := strings.SplitN(key, "/", 2)
	sec := &api_v1.Secret{ObjectMeta: metav1.ObjectMeta{Namespace: p[0], Name: p[1]}, Data: map[string][]byte{}}
	switch {
	case strings.HasPrefix(p[1], "jwk"):
		sec.Type = secrets.SecretTypeJWK
	case strings.HasPrefix(p[1], "htp"):
		sec.Type = secrets.SecretTypeHtpasswd
	case strings.HasPrefix(p[1], "ca"):
		sec.Type = secrets.SecretTypeCA
	case strings.HasPrefix(p[1], "oidc"):
		sec.Type = secrets.SecretTypeOIDC
		sec.Data[secrets.ClientSecretKey] = []byte("x")
	case strings.HasPrefix(p[1], "api"):
		sec.Type = secrets.SecretTypeAPIKey
		sec.Data["c1"] = []byte("k1")
	default:
		sec.Type = api_v1.SecretTypeTLS
	}
	return &secrets.SecretReference{Secret: sec, Path: "/etc/nginx/secrets/" + p[0] + "-" + p[1]}
}

type verifRecAP struct{ log *[]string }

func (a *verifRecAP) AddOrUpdatePolicy(_ *unstructured.Unstructured) ([]appprotect.Change, []appprotect.Problem) {
	return nil, nil
}

func (a *verifRecAP) AddOrUpdateLogConf(_ *unstructured.Unstructured) ([]appprotect.Change, []appprotect.Problem) {
	return nil, nil
}

func (a *verifRecAP) AddOrUpdateUserSig(_ *unstructured.Unstructured) (appprotect.UserSigChange, []appprotect.Problem) {
	return appprotect.UserSigChange{}, nil
}
func (a *verifRecAP) DeletePolicy(_ string) ([]appprotect.Change, []appprotect.Problem) {
	return nil, nil
}
func (a *verifRecAP) DeleteLogConf(_ string) ([]appprotect.Change, []appprotect.Problem) {
	return nil, nil
}
func (a *verifRecAP) DeleteUserSig(_ string) (appprotect.UserSigChange, []appprotect.Problem) {
	return appprotect.UserSigChange{}, nil
}

func (a *verifRecAP) GetAppResource(kind, key string) (*unstructured.Unstructured, error) {
	*a.log = append(*a.log, kind+":"+key)
	u := &unstructured.Unstructured{Object: map[string]interface{}{}}
	p := strings.SplitN(key, "/", 2)
	u.SetNamespace(p[0])
	u.SetName(p[1])
	return u, nil
}

// ---- fixtures

func verifRefPolicy(ns, name, kind string) *conf_v1.Policy {
	p := &conf_v1.Policy{ObjectMeta: metav1.ObjectMeta{Namespace: ns, Name: name}}
	switch kind {
	case "jwt":
		p.Spec.JWTAuth = &conf_v1.JWTAuth{Realm: "r", Secret: "jwk-" + name}
	case "basic":
		p.Spec.BasicAuth = &conf_v1.BasicAuth{Realm: "r", Secret: "htp-" + name}
	case "imtls":
		p.Spec.IngressMTLS = &conf_v1.IngressMTLS{ClientCertSecret: "ca-" + name}
	case "emtls":
		p.Spec.EgressMTLS = &conf_v1.EgressMTLS{TLSSecret: "tls-" + name, TrustedCertSecret: "ca-" + name}
	case "oidc":
		p.Spec.OIDC = &conf_v1.OIDC{AuthEndpoint: "https://idp.example.com/auth", TokenEndpoint: "https://idp.example.com/token",
			JWKSURI: "https://idp.example.com/jwks", ClientID: "c", ClientSecret: "oidc-" + name, Scope: "openid"}
	case "apikey":
		p.Spec.APIKey = &conf_v1.APIKey{SuppliedIn: &conf_v1.SuppliedIn{Header: []string{"X-Key"}}, ClientSecret: "api-" + name}
	case "waf":
		p.Spec.WAF = &conf_v1.WAF{Enable: true, ApPolicy: "ap-" + name, SecurityLogs: []*conf_v1.SecurityLog{{Enable: true, ApLogConf: "lc-" + name, LogDest: "stderr"}}}
	case "wafold": // the deprecated single securityLog only
		p.Spec.WAF = &conf_v1.WAF{Enable: true, ApPolicy: "ap-" + name, SecurityLog: &conf_v1.SecurityLog{Enable: true, ApLogConf: "lc-" + name, LogDest: "stderr"}}
	case "wafboth": // a migrated policy that still carries the old field: the list is what the generation reads
		p.Spec.WAF = &conf_v1.WAF{Enable: true, ApPolicy: "ap-" + name, SecurityLog: &conf_v1.SecurityLog{Enable: true, ApLogConf: "lcold-" + name, LogDest: "stderr"},
			SecurityLogs: []*conf_v1.SecurityLog{{Enable: true, ApLogConf: "lc-" + name, LogDest: "stderr"}, {Enable: true, ApLogConf: "lc2-" + name, LogDest: "stderr"}}}
	}
	return p
}

type verifRefCase struct {
	resource   Resource // what GetResources must contain and FindResourcesFor* must return
	vs         *conf_v1.VirtualServer
	vsrs       []*conf_v1.VirtualServerRoute
	ing        *networking.Ingress
	minions    []*networking.Ingress
	ts         *conf_v1.TransportServer
	policies   []*conf_v1.Policy
	services   []*api_v1.Service
	dosProts   []string
	setupError string
}

func verifSvc(ns, name string, external bool) *api_v1.Service {
	s := &api_v1.Service{ObjectMeta: metav1.ObjectMeta{Namespace: ns, Name: name}}
	s.Spec.Ports = []api_v1.ServicePort{{Port: 80}}
	s.Spec.ClusterIP = "10.96.0.9"
	if external {
		s.Spec.Type = api_v1.ServiceTypeExternalName
		s.Spec.ExternalName = "ext.example.com"
	}
	return s
}

func verifPolRef(form, name string) conf_v1.PolicyReference {
	if form == "qual" {
		return conf_v1.PolicyReference{Name: name, Namespace: "e"}
	}
	return conf_v1.PolicyReference{Name: name}
}

// VerifRefs builds one served resource with one populated reference position, generates its extended
// resource with the real create*Ex while recording every dependency lookup, and asks the real reverse
// lookups (FindResourcesFor*, getPoliciesForSecret) for each consulted object.
// kv: kind=vs|vsr|ing|minion|ts  pos=<position>  form=bare|qual  vsrns=d|e
func VerifRefs(kv map[string]string) string {
	kind, pos, form := kv["kind"], kv["pos"], kv["form"]
	vsrns := kv["vsrns"]
	if vsrns == "" {
		vsrns = "d"
	}
	var log []string
	lbc := &LoadBalancerController{ingressClass: "nginx", Logger: verifLogger, isNginxPlus: true, appProtectEnabled: true, appProtectDosEnabled: true, enableOIDC: true}
	cfg := NewConfiguration(lbc.HasCorrectIngressClass, true, true, true, false,
		validation.NewVirtualServerValidator(validation.IsPlus(true), validation.IsDosEnabled(true)),
		validation.NewGlobalConfigurationValidator(map[int]bool{}), validation.NewTransportServerValidator(true, false, true), true, false, false, false)
	polStore := cache.NewStore(cache.DeletionHandlingMetaNamespaceKeyFunc)
	svcStore := cache.NewStore(cache.DeletionHandlingMetaNamespaceKeyFunc)
	sliceStore := cache.NewStore(cache.DeletionHandlingMetaNamespaceKeyFunc)
	podIdx := cache.NewIndexer(cache.DeletionHandlingMetaNamespaceKeyFunc, cache.Indexers{cache.NamespaceIndex: cache.MetaNamespaceIndexFunc})
	lbc.configuration = cfg
	lbc.secretStore = &verifRecSecrets{log: &log}
	lbc.appProtectConfiguration = &verifRecAP{log: &log}
	lbc.dosConfiguration = appprotectdos.NewConfiguration(true)
	lbc.namespacedInformers = map[string]*namespacedInformer{"": {
		policyLister:        verifRecStore{polStore, "policy", &log},
		svcLister:           verifRecStore{svcStore, "service", &log},
		endpointSliceLister: storeToEndpointSliceLister{sliceStore},
		podLister:           indexerToPodLister{podIdx},
	}}
	polNs := "d"
	if form == "qual" {
		polNs = "e"
	}
	addPol := func(name, k string) conf_v1.PolicyReference {
		_ = polStore.Add(verifRefPolicy(polNs, name, k))
		return verifPolRef(form, name)
	}
	// polRefs: the reference list for a policy position; form=both lists a bare and a qualified reference to
	// two different same-named policies (own namespace and "e")
	polRefs := func(name, k string) []conf_v1.PolicyReference {
		if form != "both" {
			return []conf_v1.PolicyReference{addPol(name, k)}
		}
		_ = polStore.Add(verifRefPolicy(polNs, name, k))
		_ = polStore.Add(verifRefPolicy("e", name, k))
		return []conf_v1.PolicyReference{{Name: name}, {Name: name, Namespace: "e"}}
	}
	dosNs := "d" // a bare DoS reference is resolved in the referrer's namespace (the route's for a subroute)
	if pos == "subroutedos" {
		dosNs = vsrns
	}
	if form == "qual" {
		dosNs = "e"
	}
	dosRef := func(name string) string {
		ns := dosNs
		p := verifU("APDosPolicy", ns, "dp", true)
		_, _ = lbc.dosConfiguration.AddOrUpdatePolicy(p)
		_, _ = lbc.dosConfiguration.AddOrUpdateDosProtectedResource(verifDosProt(ns, name))
		if form == "qual" {
			return "e/" + name
		}
		return name
	}
	bport := uint16(80)
	var target Resource
	problem := ""
	pk := strings.SplitN(pos, ".", 3) // e.g. spec.policy.jwt
	switch kind {
	case "vs", "vsr":
		vs := &conf_v1.VirtualServer{ObjectMeta: metav1.ObjectMeta{Namespace: "d", Name: "v", UID: "u-vs"}}
		vs.Spec.Host = "a.ex"
		vs.Spec.Upstreams = []conf_v1.Upstream{{Name: "u", Service: "svc-main", Port: 80}}
		vs.Spec.Routes = []conf_v1.Route{{Path: "/", Action: &conf_v1.Action{Pass: "u"}}}
		_ = svcStore.Add(verifSvc("d", "svc-main", false))
		var vsr *conf_v1.VirtualServerRoute
		if kind == "vsr" {
			vsr = &conf_v1.VirtualServerRoute{ObjectMeta: metav1.ObjectMeta{Namespace: vsrns, Name: "r", UID: "u-vsr"}}
			vsr.Spec.Host = "a.ex"
			vsr.Spec.Upstreams = []conf_v1.Upstream{{Name: "ru", Service: "svc-route", Port: 80}}
			vsr.Spec.Subroutes = []conf_v1.Route{{Path: "/r", Action: &conf_v1.Action{Pass: "ru"}}}
			_ = svcStore.Add(verifSvc(vsrns, "svc-route", false))
			vs.Spec.Routes = append(vs.Spec.Routes, conf_v1.Route{Path: "/r", Route: vsrns + "/r"})
		}
		switch pk[0] {
		case "tls":
			vs.Spec.TLS = &conf_v1.TLS{Secret: "tls-main"}
		case "upstream":
			vs.Spec.Upstreams[0].Service = "svc-x"
			_ = svcStore.Add(verifSvc("d", "svc-x", false))
		case "clusterip":
			vs.Spec.Upstreams[0].Service = "svc-x"
			vs.Spec.Upstreams[0].UseClusterIP = true
			_ = svcStore.Add(verifSvc("d", "svc-x", false))
		case "backup":
			vs.Spec.Upstreams[0].Backup = "svc-b"
			vs.Spec.Upstreams[0].BackupPort = &bport
			_ = svcStore.Add(verifSvc("d", "svc-b", true))
		case "specpolicy":
			vs.Spec.Policies = polRefs("p1", pk[1])
		case "routepolicy":
			vs.Spec.Routes[0].Policies = polRefs("p1", pk[1])
		case "dos":
			vs.Spec.Dos = dosRef("prot")
		case "routedos":
			vs.Spec.Routes[0].Dos = dosRef("prot")
		case "vsrupstream":
			vsr.Spec.Upstreams[0].Service = "svc-y"
			_ = svcStore.Add(verifSvc(vsrns, "svc-y", false))
		case "vsrbackup":
			vsr.Spec.Upstreams[0].Backup = "svc-rb"
			vsr.Spec.Upstreams[0].BackupPort = &bport
			_ = svcStore.Add(verifSvc(vsrns, "svc-rb", true))
			_ = svcStore.Add(verifSvc("d", "svc-rb", true))
		case "subroutepolicy":
			if form != "qual" {
				polNs = vsrns
			}
			vsr.Spec.Subroutes[0].Policies = polRefs("p1", pk[1])
		case "subroutedos":
			vsr.Spec.Subroutes[0].Dos = dosRef("prot")
		}
		_, _ = cfg.AddOrUpdateVirtualServer(vs)
		var vsrs []*conf_v1.VirtualServerRoute
		if vsr != nil {
			_, _ = cfg.AddOrUpdateVirtualServerRoute(vsr)
		}
		for _, r := range cfg.GetResources() {
			if c, ok := r.(*VirtualServerConfiguration); ok {
				target = r
				vsrs = c.VirtualServerRoutes
			}
		}
		if target == nil {
			problem = "vs-not-served"
			break
		}
		if vsr != nil && len(vsrs) == 0 {
			problem = "vsr-not-attached"
			break
		}
		log = nil
		lbc.createVirtualServerEx(vs, vsrs)
	case "ing", "minion":
		pt := networking.PathTypePrefix
		mk := func(name, typ string) *networking.Ingress {
			ing := &networking.Ingress{ObjectMeta: metav1.ObjectMeta{Namespace: "d", Name: name, UID: types.UID("u-" + name), Annotations: map[string]string{}}}
			c := "nginx"
			ing.Spec.IngressClassName = &c
			ing.Spec.Rules = []networking.IngressRule{{Host: "a.ex"}}
			if typ != "master" {
				ing.Spec.Rules[0].HTTP = &networking.HTTPIngressRuleValue{Paths: []networking.HTTPIngressPath{{Path: "/" + name, PathType: &pt,
					Backend: networking.IngressBackend{Service: &networking.IngressServiceBackend{Name: "svc-" + name, Port: networking.ServiceBackendPort{Number: 80}}}}}}
				_ = svcStore.Add(verifSvc("d", "svc-"+name, false))
			}
			if typ != "" {
				ing.Annotations["nginx.org/mergeable-ingress-type"] = typ
			}
			return ing
		}
		var subject *networking.Ingress
		var master *networking.Ingress
		if kind == "ing" {
			subject = mk("i", "")
		} else {
			master = mk("m", "master")
			subject = mk("n", "minion")
		}
		apRef := func(prefix string) string {
			if form == "qual" {
				return "e/" + prefix
			}
			return prefix
		}
		switch pk[0] {
		case "tls":
			subject.Spec.TLS = []networking.IngressTLS{{Hosts: []string{"a.ex"}, SecretName: "tls-ing"}}
		case "backend":
			subject.Spec.Rules[0].HTTP.Paths[0].Backend.Service.Name = "svc-x"
			_ = svcStore.Add(verifSvc("d", "svc-x", false))
		case "defaultbackend":
			subject.Spec.DefaultBackend = &networking.IngressBackend{Service: &networking.IngressServiceBackend{Name: "svc-def", Port: networking.ServiceBackendPort{Number: 80}}}
			_ = svcStore.Add(verifSvc("d", "svc-def", false))
		case "jwt":
			subject.Annotations[configs.JWTKeyAnnotation] = "jwk-ing"
		case "basic":
			subject.Annotations[configs.BasicAuthSecretAnnotation] = "htp-ing"
		case "appolicy":
			subject.Annotations[configs.AppProtectPolicyAnnotation] = apRef("ap1")
			subject.Annotations["appprotect.f5.com/app-protect-enable"] = "True"
		case "aplogconf":
			subject.Annotations[configs.AppProtectLogConfAnnotation] = apRef("lc1")
			subject.Annotations["appprotect.f5.com/app-protect-security-log-enable"] = "True"
			subject.Annotations["appprotect.f5.com/app-protect-security-log-destination"] = "stderr"
		case "dos":
			subject.Annotations[configs.AppProtectDosProtectedAnnotation] = dosRef("prot")
		}
		// ctx: the Ingress claims two hosts; a rival Ingress (greater UID at equal creation time, so it wins) holds the
		// first (losefirst) or the second (loselast) of them; the subject is still served for the other host and still
		// depends on everything it names
		if ctx := kv["ctx"]; ctx != "" && kind == "ing" {
			second := subject.Spec.Rules[0].DeepCopy()
			second.Host = "b.ex"
			subject.Spec.Rules = append(subject.Spec.Rules, *second)
			if ctx == "losefirst" || ctx == "loselast" {
				rival := mk("zz", "")
				rival.UID = types.UID("u-zz")
				if ctx == "loselast" {
					rival.Spec.Rules[0].Host = "b.ex"
				}
				_, _ = cfg.AddOrUpdateIngress(rival)
			}
		}
		if master != nil {
			_, _ = cfg.AddOrUpdateIngress(master)
		}
		_, probs := cfg.AddOrUpdateIngress(subject)
		for _, p := range probs {
			if p.IsError {
				problem = "invalid:" + strings.ReplaceAll(p.Message, " ", "_")
			}
		}
		var ic *IngressConfiguration
		for _, r := range cfg.GetResources() {
			if c, ok := r.(*IngressConfiguration); ok && c.Ingress.Name != "zz" {
				target = r
				ic = c
			}
		}
		if target == nil {
			if problem == "" {
				problem = "ing-not-served"
			}
			break
		}
		if kind == "minion" && len(ic.Minions) == 0 {
			problem = "minion-not-attached"
			break
		}
		log = nil
		if ic.IsMaster {
			lbc.createMergeableIngresses(ic)
		} else {
			lbc.createIngressEx(ic.Ingress, ic.ValidHosts, nil)
		}
	case "ts":
		ts := &conf_v1.TransportServer{ObjectMeta: metav1.ObjectMeta{Namespace: "d", Name: "t", UID: "u-ts"}}
		ts.Spec.Listener = conf_v1.TransportServerListener{Name: conf_v1.TLSPassthroughListenerName, Protocol: conf_v1.TLSPassthroughListenerProtocol}
		ts.Spec.Host = "t.ex"
		ts.Spec.Upstreams = []conf_v1.TransportServerUpstream{{Name: "u", Service: "svc-ts", Port: 80}}
		ts.Spec.Action = &conf_v1.TransportServerAction{Pass: "u"}
		_ = svcStore.Add(verifSvc("d", "svc-ts", false))
		switch pk[0] {
		case "upstream":
			ts.Spec.Upstreams[0].Service = "svc-x"
			_ = svcStore.Add(verifSvc("d", "svc-x", false))
		case "backup":
			ts.Spec.Upstreams[0].Backup = "svc-b"
			ts.Spec.Upstreams[0].BackupPort = &bport
			_ = svcStore.Add(verifSvc("d", "svc-b", true))
		case "tls":
			ts.Spec.Listener = conf_v1.TransportServerListener{Name: "tcp1", Protocol: "TCP"}
			ts.Spec.TLS = &conf_v1.TransportServerTLS{Secret: "tls-ts"}
			gc := &conf_v1.GlobalConfiguration{}
			gc.Spec.Listeners = []conf_v1.Listener{{Name: "tcp1", Port: 5000, Protocol: "TCP"}}
			_, _, _ = cfg.AddOrUpdateGlobalConfiguration(gc)
		}
		_, probs := cfg.AddOrUpdateTransportServer(ts)
		for _, p := range probs {
			if p.IsError {
				problem = "invalid:" + strings.ReplaceAll(p.Message, " ", "_")
			}
		}
		for _, r := range cfg.GetResources() {
			if _, ok := r.(*TransportServerConfiguration); ok {
				target = r
			}
		}
		if target == nil {
			if problem == "" {
				problem = "ts-not-served"
			}
			break
		}
		log = nil
		lbc.createTransportServerEx(ts, 5000, "", "")
	}
	if problem != "" {
		return "setup=" + problem
	}
	// reverse lookups for everything that was consulted
	seen := map[string]bool{}
	var consulted, missing []string
	found := func(rs []Resource) bool {
		for _, r := range rs {
			if r.GetKeyWithKind() == target.GetKeyWithKind() {
				return true
			}
		}
		return false
	}
	for _, e := range log {
		if seen[e] {
			continue
		}
		seen[e] = true
		consulted = append(consulted, e)
		p := strings.SplitN(e, ":", 2)
		nn := strings.SplitN(p[1], "/", 2)
		ok := false
		switch p[0] {
		case "secret":
			ok = found(cfg.FindResourcesForSecret(nn[0], nn[1]))
			for _, pol := range lbc.getPoliciesForSecret(nn[0], nn[1]) {
				ok = ok || found(cfg.FindResourcesForPolicy(pol.Namespace, pol.Name))
			}
		case "service":
			ok = found(cfg.FindResourcesForService(nn[0], nn[1])) && (found(cfg.FindResourcesForEndpoints(nn[0], nn[1])) || kv["pos"] == "clusterip")
		case "policy":
			ok = found(cfg.FindResourcesForPolicy(nn[0], nn[1]))
		case "APPolicy":
			ok = found(cfg.FindResourcesForAppProtectPolicyAnnotation(nn[0], nn[1]))
			for _, pol := range getWAFPoliciesForAppProtectPolicy(lbc.getAllPolicies(), p[1]) {
				ok = ok || found(cfg.FindResourcesForPolicy(pol.Namespace, pol.Name))
			}
		case "APLogConf":
			ok = found(cfg.FindResourcesForAppProtectLogConfAnnotation(nn[0], nn[1]))
			for _, pol := range getWAFPoliciesForAppProtectLogConf(lbc.getAllPolicies(), p[1]) {
				ok = ok || found(cfg.FindResourcesForPolicy(pol.Namespace, pol.Name))
			}
		default:
			ok = true
		}
		if !ok {
			missing = append(missing, e)
		}
	}
	// DoS protected resources are resolved by a concrete type that cannot be wrapped: check the declared reference
	if strings.Contains(pos, "dos") {
		ns := dosNs
		consulted = append(consulted, "dos:"+ns+"/prot")
		if !found(cfg.FindResourcesForAppProtectDosProtected(ns, "prot")) {
			missing = append(missing, "dos:"+ns+"/prot")
		}
	}
	sort.Strings(consulted)
	sort.Strings(missing)
	return fmt.Sprintf("consulted=%s#missing=%s", strings.Join(consulted, ","), strings.Join(missing, ","))
}

func verifU(kind, ns, name string, ok bool) *unstructured.Unstructured {
	u := &unstructured.Unstructured{Object: map[string]interface{}{}}
	u.SetKind(kind)
	u.SetNamespace(ns)
	u.SetName(name)
	if ok {
		u.Object["spec"] = map[string]interface{}{"mitigation_mode": "standard"}
	}
	return u
}

func verifDosProt(ns, name string) *dos_v1beta1.DosProtectedResource {
	p := &dos_v1beta1.DosProtectedResource{ObjectMeta: metav1.ObjectMeta{Namespace: ns, Name: name}}
	p.Spec.Name = "app"
	p.Spec.ApDosPolicy = "dp"
	return p
}
