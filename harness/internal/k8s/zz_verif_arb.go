//go:build verif

package k8s

import (
	"fmt"
	"io"
	"log/slog"
	"os"
	"regexp"
	"sort"
	"strconv"
	"strings"
	"time"

	"github.com/nginx/kubernetes-ingress/internal/configs"
	conf_v1 "github.com/nginx/kubernetes-ingress/pkg/apis/configuration/v1"
	"github.com/nginx/kubernetes-ingress/pkg/apis/configuration/validation"
	networking "k8s.io/api/networking/v1"
	metav1 "k8s.io/apimachinery/pkg/apis/meta/v1"
	"k8s.io/apimachinery/pkg/runtime"
	"k8s.io/apimachinery/pkg/types"
	"k8s.io/client-go/tools/cache"

	fake_nginx "github.com/nginx/kubernetes-ingress/pkg/client/clientset/versioned/fake"
)

var verifLogger = slog.New(slog.NewTextHandler(io.Discard, nil))

func verifUnq(s string) string {
	if s == "_" {
		return ""
	}
	return s
}

func verifSplit(s, sep string) []string {
	if s == "" {
		return nil
	}
	return strings.Split(s, sep)
}

func verifMeta(ns, name, uid, ts, gen string) metav1.ObjectMeta {
	t, _ := strconv.Atoi(ts)
	g, _ := strconv.Atoi(gen)
	return metav1.ObjectMeta{
		Namespace:         ns,
		Name:              name,
		UID:               types.UID(uid),
		CreationTimestamp: metav1.NewTime(time.Unix(1700000000+int64(t), 0)),
		Generation:        int64(g),
	}
}

// verifIngress builds a real Ingress: f = ns|name|uid|ts|gen|ann|cls|valid|typ|chal|rules
func verifIngress(f []string) *networking.Ingress {
	ing := &networking.Ingress{ObjectMeta: verifMeta(f[0], f[1], f[2], f[3], f[4])}
	ing.Annotations = map[string]string{}
	if a := verifUnq(f[5]); a != "" {
		ing.Annotations["verif.example/x"] = a
	}
	switch f[6] {
	case "1":
		c := "nginx"
		ing.Spec.IngressClassName = &c
	case "0":
		c := "other"
		ing.Spec.IngressClassName = &c
	case "n": // no class at all
	case "a": // correct class by deprecated annotation, foreign field
		c := "other"
		ing.Spec.IngressClassName = &c
		ing.Annotations[ingressClassKey] = "nginx"
	case "b": // foreign annotation, correct field
		c := "nginx"
		ing.Spec.IngressClassName = &c
		ing.Annotations[ingressClassKey] = "other"
	}
	if f[7] == "0" {
		ing.Annotations["nginx.org/lb-method"] = "bogus method"
	}
	switch f[8] {
	case "M":
		ing.Annotations["nginx.org/mergeable-ingress-type"] = "master"
	case "m":
		ing.Annotations["nginx.org/mergeable-ingress-type"] = "minion"
	}
	if f[9] == "1" {
		ing.Labels = map[string]string{"acme.cert-manager.io/http01-solver": "true"}
	}
	pt := networking.PathTypePrefix
	for _, r := range verifSplit(f[10], "&") {
		hp := strings.SplitN(r, ">", 2)
		rule := networking.IngressRule{Host: hp[0]}
		paths := verifSplit(hp[1], "+")
		if len(paths) > 0 {
			rule.HTTP = &networking.HTTPIngressRuleValue{}
			for _, p := range paths {
				pt := pt
				if p == "E" { // the empty path, admissible with pathType ImplementationSpecific only
					p, pt = "", networking.PathTypeImplementationSpecific
				}
				rule.HTTP.Paths = append(rule.HTTP.Paths, networking.HTTPIngressPath{
					Path: p, PathType: &pt,
					Backend: networking.IngressBackend{Service: &networking.IngressServiceBackend{Name: "svc", Port: networking.ServiceBackendPort{Number: 80}}},
				})
			}
		}
		ing.Spec.Rules = append(ing.Spec.Rules, rule)
	}
	return ing
}

func verifClass(c string) string {
	switch c {
	case "1":
		return "nginx"
	case "0":
		return "other"
	}
	return "" // "n": empty class is accepted for custom resources
}

// verifVS: f = ns|name|uid|ts|gen|cls|valid|host|routes|lh|ls
func verifVS(f []string) *conf_v1.VirtualServer {
	vs := &conf_v1.VirtualServer{ObjectMeta: verifMeta(f[0], f[1], f[2], f[3], f[4])}
	vs.Spec.IngressClass = verifClass(f[5])
	vs.Spec.Host = f[7]
	vs.Spec.Upstreams = []conf_v1.Upstream{{Name: "u", Service: "svc", Port: 80}}
	for _, r := range verifSplit(f[8], "&") {
		pr := strings.SplitN(r, ">", 2)
		rt := conf_v1.Route{Path: pr[0]}
		if ref := verifUnq(pr[1]); ref == "" {
			rt.Action = &conf_v1.Action{Pass: "u"}
		} else {
			rt.Route = ref
		}
		vs.Spec.Routes = append(vs.Spec.Routes, rt)
	}
	if f[6] == "0" {
		vs.Spec.Upstreams = append(vs.Spec.Upstreams, conf_v1.Upstream{Name: "Bad_Name!", Service: "svc", Port: 80})
	}
	if !(f[9] == "-" && f[10] == "-") {
		vs.Spec.Listener = &conf_v1.VirtualServerListener{HTTP: verifUnq(f[9]), HTTPS: verifUnq(f[10])}
	}
	return vs
}

// verifVSR: f = ns|name|uid|ts|gen|cls|valid|host|subs
func verifVSR(f []string) *conf_v1.VirtualServerRoute {
	r := &conf_v1.VirtualServerRoute{ObjectMeta: verifMeta(f[0], f[1], f[2], f[3], f[4])}
	r.Spec.IngressClass = verifClass(f[5])
	r.Spec.Host = f[7]
	r.Spec.Upstreams = []conf_v1.Upstream{{Name: "u", Service: "svc", Port: 80}}
	for _, p := range verifSplit(f[8], "+") {
		r.Spec.Subroutes = append(r.Spec.Subroutes, conf_v1.Route{Path: p, Action: &conf_v1.Action{Pass: "u"}})
	}
	if f[6] == "0" {
		r.Spec.Upstreams = append(r.Spec.Upstreams, conf_v1.Upstream{Name: "Bad_Name!", Service: "svc", Port: 80})
	}
	return r
}

// verifTS: f = ns|name|uid|ts|gen|cls|valid|lname|proto|host
func verifTS(f []string) *conf_v1.TransportServer {
	t := &conf_v1.TransportServer{ObjectMeta: verifMeta(f[0], f[1], f[2], f[3], f[4])}
	t.Spec.IngressClass = verifClass(f[5])
	t.Spec.Listener = conf_v1.TransportServerListener{Name: f[7], Protocol: f[8]}
	t.Spec.Host = verifUnq(f[9])
	t.Spec.Upstreams = []conf_v1.TransportServerUpstream{{Name: "u", Service: "svc", Port: 5353}}
	if f[6] != "0" {
		t.Spec.Action = &conf_v1.TransportServerAction{Pass: "u"}
	}
	if t.Spec.Host != "" && f[8] != "TLS_PASSTHROUGH" {
		t.Spec.TLS = &conf_v1.TransportServerTLS{Secret: "tls-secret"}
	}
	return t
}

func verifListeners(s string) []conf_v1.Listener {
	var out []conf_v1.Listener
	for _, l := range verifSplit(s, "&") {
		f := strings.Split(l, ">")
		port, _ := strconv.Atoi(f[1])
		out = append(out, conf_v1.Listener{Name: verifUnq(f[0]), Port: port, Protocol: verifUnq(f[2]), Ssl: f[3] == "1", IPv4: verifUnq(f[4]), IPv6: verifUnq(f[5])})
	}
	return out
}

var verifMsgRules = []struct {
	re   *regexp.Regexp
	repl string
}{
	{regexp.MustCompile(`^host (\S*) is taken by another resource$`), "host-taken:$1"},
	{regexp.MustCompile(`^path (\S*) is taken by another resource$`), "path-taken:$1"},
	{regexp.MustCompile(`^VirtualServerRoute (\S+) doesn't exist or invalid$`), "vsr-missing:$1"},
	{regexp.MustCompile(`(?s)^VirtualServerRoute (\S+) is invalid: .*$`), "vsr-invalid:$1"},
	{regexp.MustCompile(`^VirtualServerRoute (\S+) is referenced more than once$`), "vsr-duplicate:$1"},
	{regexp.MustCompile(`^Listeners defined, but no GlobalConfiguration is deployed$`), "listeners-no-gc"},
	{regexp.MustCompile("^Listener (\\S*) can't be use in `listener.http` context.*$"), "listener-http-ssl:$1"},
	{regexp.MustCompile("^Listener (\\S*) can't be use in `listener.https` context.*$"), "listener-https-nossl:$1"},
	{regexp.MustCompile(`^Listener (\S*) is not defined in GlobalConfiguration$`), "listener-undefined:$1"},
	{regexp.MustCompile(`^listener (\S*) and host (\S*) are taken by another resource$`), "listener-taken:$1:$2"},
	{regexp.MustCompile(`^All hosts are taken by other resources$`), "all-hosts-taken"},
	{regexp.MustCompile(`^Host is taken by another resource$`), "host-taken"},
	{regexp.MustCompile(`^Ingress master is invalid or doesn't exist$`), "no-master"},
	{regexp.MustCompile(`^VirtualServer is invalid or doesn't exist$`), "no-vs"},
	{regexp.MustCompile(`^VirtualServer (\S+) ignores VirtualServerRoute$`), "ignored-by:$1"},
	{regexp.MustCompile(`^Listener (\S*) doesn't exist$`), "listener-missing:$1"},
	{regexp.MustCompile(`^Listener (\S*) with host (.*) is taken by another resource$`), "listener-taken:$1:$2"},
}

func verifCode(msg string) string {
	for _, r := range verifMsgRules {
		if r.re.MatchString(msg) {
			return strings.ReplaceAll(r.re.ReplaceAllString(msg, r.repl), " ", "_")
		}
	}
	return "other:" + regexp.MustCompile(`[^A-Za-z0-9/.:-]+`).ReplaceAllString(msg, "_")
}

func verifCodes(ws []string) string {
	out := make([]string, 0, len(ws))
	for _, w := range ws {
		out = append(out, verifCode(w))
	}
	sort.Strings(out)
	return strings.Join(out, "+")
}

func verifMetaStr(m *metav1.ObjectMeta) string {
	return fmt.Sprintf("%s/%s", m.Namespace, m.Name)
}

func verifBoolMap(m map[string]bool) string {
	keys := make([]string, 0, len(m))
	for k := range m {
		keys = append(keys, k)
	}
	sort.Strings(keys)
	out := make([]string, 0, len(keys))
	for _, k := range keys {
		v := "0"
		if m[k] {
			v = "1"
		}
		out = append(out, k+"="+v)
	}
	return strings.Join(out, "+")
}

// verifUID prints the digits of an object's UID as a number (the generator's UIDs are u001, u002, ...): which OBJECT an entry was
// built from, so that an entry built from a deleted-and-re-created namesake is told apart from the current one.
func verifUID(m *metav1.ObjectMeta) string {
	n := 0
	for _, ch := range string(m.UID) {
		if ch >= '0' && ch <= '9' {
			n = n*10 + int(ch-'0')
		}
	}
	return strconv.Itoa(n)
}

// verifSnap is the canonical rendering of a Resource (everything the generator reads from it).
func verifSnap(r Resource) string {
	switch c := r.(type) {
	case *IngressConfiguration:
		var mins []string
		for _, m := range c.Minions {
			mins = append(mins, fmt.Sprintf("%s@g%du%s(%s)", verifMetaStr(&m.Ingress.ObjectMeta), m.Ingress.Generation, verifUID(&m.Ingress.ObjectMeta), verifBoolMap(m.ValidPaths)))
		}
		var cw []string
		keys := make([]string, 0, len(c.ChildWarnings))
		for k := range c.ChildWarnings {
			keys = append(keys, k)
		}
		sort.Strings(keys)
		for _, k := range keys {
			if len(c.ChildWarnings[k]) > 0 {
				cw = append(cw, fmt.Sprintf("%s(%s)", k, verifCodes(c.ChildWarnings[k])))
			}
		}
		master := 0
		if c.IsMaster {
			master = 1
		}
		return fmt.Sprintf("%s{g%du%s!a%s!M%d!vh:%s!min:%s!w:%s!cw:%s}", c.GetKeyWithKind(), c.Ingress.Generation, verifUID(&c.Ingress.ObjectMeta), c.Ingress.Annotations["verif.example/x"], master,
			verifBoolMap(c.ValidHosts), strings.Join(mins, "+"), verifCodes(c.Warnings), strings.Join(cw, "+"))
	case *VirtualServerConfiguration:
		var vsrs []string
		for _, v := range c.VirtualServerRoutes {
			vsrs = append(vsrs, fmt.Sprintf("%s@g%du%s", verifMetaStr(&v.ObjectMeta), v.Generation, verifUID(&v.ObjectMeta)))
		}
		return fmt.Sprintf("%s{g%du%s!h:%s!vsr:%s!p:%d/%d!ip:%s,%s,%s,%s!w:%s}", c.GetKeyWithKind(), c.VirtualServer.Generation, verifUID(&c.VirtualServer.ObjectMeta), c.VirtualServer.Spec.Host, strings.Join(vsrs, "+"),
			c.HTTPPort, c.HTTPSPort, c.HTTPIPv4, c.HTTPIPv6, c.HTTPSIPv4, c.HTTPSIPv6, verifCodes(c.Warnings))
	case *TransportServerConfiguration:
		return fmt.Sprintf("%s{g%du%s!h:%s!l:%s!p:%d!ip:%s,%s!w:%s}", c.GetKeyWithKind(), c.TransportServer.Generation, verifUID(&c.TransportServer.ObjectMeta), c.TransportServer.Spec.Host, c.TransportServer.Spec.Listener.Name, c.ListenerPort, c.IPv4, c.IPv6, verifCodes(c.Warnings))
	}
	return "?"
}

func verifProblemKey(p ConfigurationProblem) string {
	switch o := p.Object.(type) {
	case *networking.Ingress:
		return "Ingress/" + verifMetaStr(&o.ObjectMeta)
	case *conf_v1.VirtualServer:
		return "VirtualServer/" + verifMetaStr(&o.ObjectMeta)
	case *conf_v1.VirtualServerRoute:
		return "VirtualServerRoute/" + verifMetaStr(&o.ObjectMeta)
	case *conf_v1.TransportServer:
		return "TransportServer/" + verifMetaStr(&o.ObjectMeta)
	}
	return "?"
}

func verifObs(c *Configuration, changes []ResourceChange, problems []ConfigurationProblem) string {
	var cs, ps, rs []string
	for _, ch := range changes {
		op := "U"
		if ch.Op == Delete {
			op = "D"
		}
		e := 0
		if ch.Error != "" {
			e = 1
		}
		cs = append(cs, fmt.Sprintf("%s~%s~e%d", op, verifSnap(ch.Resource), e))
	}
	for _, p := range problems {
		kind := "W"
		code := verifCode(p.Message)
		if p.IsError {
			kind = "E"
			code = "validation-error"
			if os.Getenv("VERIF_DEBUG") != "" {
				fmt.Fprintln(os.Stderr, "validation error:", p.Message)
			}
		}
		ps = append(ps, fmt.Sprintf("%s~%s~%s~%s", verifProblemKey(p), kind, p.Reason, code))
	}
	sort.Strings(ps) // the order of problems within one batch is not part of any property
	for _, r := range c.GetResources() {
		rs = append(rs, verifSnap(r))
	}
	return fmt.Sprintf("C=%s#P=%s#R=%s", strings.Join(cs, ","), strings.Join(ps, ","), strings.Join(rs, ","))
}

// verifRecorder records the events the controller would send (record.EventRecorder).
type verifRecorder struct{ events []string }

var verifWarnRe = regexp.MustCompile(`with warning\(s\): (.*)$`)

func (r *verifRecorder) add(obj runtime.Object, eventtype, reason, msg string) {
	key := "?"
	switch o := obj.(type) {
	case *networking.Ingress:
		key = "Ingress/" + verifMetaStr(&o.ObjectMeta)
	case *conf_v1.VirtualServer:
		key = "VirtualServer/" + verifMetaStr(&o.ObjectMeta)
	case *conf_v1.VirtualServerRoute:
		key = "VirtualServerRoute/" + verifMetaStr(&o.ObjectMeta)
	case *conf_v1.TransportServer:
		key = "TransportServer/" + verifMetaStr(&o.ObjectMeta)
	}
	codes := ""
	switch {
	case strings.Contains(msg, "with error: "):
		codes = "validation-error"
	case verifWarnRe.MatchString(msg):
		codes = verifCodes(strings.Split(verifWarnRe.FindStringSubmatch(msg)[1], "; "))
	case strings.HasPrefix(msg, "Configuration for "):
		codes = ""
	default:
		codes = verifCode(msg)
		if strings.HasPrefix(codes, "other:") {
			codes = "validation-error"
		}
	}
	r.events = append(r.events, fmt.Sprintf("%s~%s~%s~%s", key, eventtype, reason, codes))
}

func (r *verifRecorder) Event(object runtime.Object, eventtype, reason, message string) {
	r.add(object, eventtype, reason, message)
}

func (r *verifRecorder) Eventf(object runtime.Object, eventtype, reason, messageFmt string, args ...interface{}) {
	r.add(object, eventtype, reason, fmt.Sprintf(messageFmt, args...))
}

func (r *verifRecorder) AnnotatedEventf(object runtime.Object, _ map[string]string, eventtype, reason, messageFmt string, args ...interface{}) {
	r.add(object, eventtype, reason, fmt.Sprintf(messageFmt, args...))
}

// verifEvents drives the controller's real reporting functions the way processChanges / processProblems do
// (the configurator calls in between are left out: no NGINX is involved, every apply "succeeds").
// gone is the key-with-kind of an object deleted from the cluster by this very event (no report is sent for it).
// verifApplyErr, when set (kv fail=1), is what every apply "returned": the NGINX reload failed. The reporting functions then get
// it as operationErr / deleteErr, as processChanges passes it on.
var verifApplyErr error

func verifEvents(changes []ResourceChange, problems []ConfigurationProblem, gone string) []string {
	rec := &verifRecorder{}
	lbc := &LoadBalancerController{recorder: rec, Logger: verifLogger, isLeaderElectionEnabled: true}
	for _, c := range changes {
		if c.Op == AddOrUpdate {
			lbc.updateResourcesStatusAndEvents([]Resource{c.Resource}, configs.Warnings{}, verifApplyErr)
			continue
		}
		if c.Resource.GetKeyWithKind() == gone {
			continue
		}
		switch impl := c.Resource.(type) {
		case *VirtualServerConfiguration:
			lbc.UpdateVirtualServerStatusAndEventsOnDelete(impl, c.Error, verifApplyErr)
		case *IngressConfiguration:
			lbc.UpdateIngressStatusAndEventsOnDelete(impl, c.Error, verifApplyErr)
		case *TransportServerConfiguration:
			lbc.updateTransportServerStatusAndEventsOnDelete(impl, c.Error, verifApplyErr)
		}
	}
	lbc.processProblems(problems)
	return rec.events
}

// VerifNewConfiguration builds a real Configuration with the real validators and class predicate.
func VerifNewConfiguration(passthrough, certManager bool, forbidden map[int]bool) *Configuration {
	lbc := &LoadBalancerController{ingressClass: "nginx", Logger: verifLogger}
	return NewConfiguration(
		lbc.HasCorrectIngressClass,
		false, false, false, false,
		validation.NewVirtualServerValidator(validation.IsCertManagerEnabled(certManager)),
		validation.NewGlobalConfigurationValidator(forbidden),
		validation.NewTransportServerValidator(passthrough, false, false),
		passthrough, false, certManager, false,
	)
}

// VerifApplyOp applies one encoded operation and returns the canonical observation.
func VerifApplyOp(c *Configuration, op string) string {
	f := strings.Split(op, "|")
	var changes []ResourceChange
	var problems []ConfigurationProblem
	extra := ""
	switch f[0] {
	case "ing":
		changes, problems = c.AddOrUpdateIngress(verifIngress(f[1:]))
	case "vs":
		changes, problems = c.AddOrUpdateVirtualServer(verifVS(f[1:]))
	case "vsr":
		changes, problems = c.AddOrUpdateVirtualServerRoute(verifVSR(f[1:]))
	case "ts":
		changes, problems = c.AddOrUpdateTransportServer(verifTS(f[1:]))
	case "gc":
		gc := &conf_v1.GlobalConfiguration{ObjectMeta: metav1.ObjectMeta{Namespace: "nginx-ingress", Name: "nginx-configuration"}}
		gc.Spec.Listeners = verifListeners(f[1])
		var err error
		changes, problems, err = c.AddOrUpdateGlobalConfiguration(gc)
		raw := verifListeners(f[1])
		var names []string
		j := 0
		for _, l := range gc.Spec.Listeners {
			// admitted listeners are a subsequence of the input: report their indices
			for j < len(raw) && raw[j] != l {
				j++
			}
			names = append(names, strconv.Itoa(j))
			j++
		}
		e := 0
		if err != nil {
			e = 1
		}
		extra = fmt.Sprintf("#L=%s#E=%d", strings.Join(names, "+"), e)
	case "del":
		switch f[1] {
		case "ing":
			changes, problems = c.DeleteIngress(f[2])
		case "vs":
			changes, problems = c.DeleteVirtualServer(f[2])
		case "vsr":
			changes, problems = c.DeleteVirtualServerRoute(f[2])
		case "ts":
			changes, problems = c.DeleteTransportServer(f[2])
		}
	case "delgc":
		changes, problems = c.DeleteGlobalConfiguration()
	default:
		return "bad-op"
	}
	gone := ""
	if f[0] == "del" {
		kind := map[string]string{"ing": "Ingress", "vs": "VirtualServer", "vsr": "VirtualServerRoute", "ts": "TransportServer"}[f[1]]
		gone = kind + "/" + f[2]
	}
	ev := strings.Join(verifEvents(changes, problems, gone), ",")
	return verifObs(c, changes, problems) + "#EV=" + ev + extra
}

func verifForbidden(s string) map[int]bool {
	m := map[int]bool{}
	for _, p := range verifSplit(s, "+") {
		n, _ := strconv.Atoi(p)
		m[n] = true
	}
	return m
}

// VerifArb runs one history: kv = pt, cm, forb, ops, rep (repeat count for Go map order)
func VerifArb(kv map[string]string) string {
	rep, _ := strconv.Atoi(kv["rep"])
	if rep < 1 {
		rep = 1
	}
	first := ""
	verifApplyErr = nil
	if kv["fail"] == "1" {
		verifApplyErr = fmt.Errorf("nginx reload failed")
	}
	defer func() { verifApplyErr = nil }()
	for i := 0; i < rep; i++ {
		c := VerifNewConfiguration(kv["pt"] == "1", kv["cm"] == "1", verifForbidden(kv["forb"]))
		var out []string
		for _, op := range strings.Split(kv["ops"], ";") {
			out = append(out, VerifApplyOp(c, op))
		}
		res := strings.Join(out, ";;")
		if i == 0 {
			first = res
		} else if res != first {
			return "NONDET " + first + " <> " + res
		}
	}
	return first
}

// VerifClass evaluates the real class predicate. kv: kind=ing|vs|vsr|ts|pol|other ann=<v|-> field=<v|-> ("-" = absent/nil, "_" = empty string)
func VerifClass(kv map[string]string) string {
	lbc := &LoadBalancerController{ingressClass: "nginx", Logger: verifLogger}
	field := verifUnq(kv["field"])
	if kv["field"] == "-" {
		field = "" // absent: a custom resource's class field is a plain string
	}
	var obj interface{}
	switch kv["kind"] {
	case "ing":
		ing := &networking.Ingress{}
		if kv["ann"] != "-" {
			ing.Annotations = map[string]string{ingressClassKey: verifUnq(kv["ann"])}
		}
		if kv["field"] != "-" {
			ing.Spec.IngressClassName = &field
		}
		obj = ing
	case "vs":
		v := &conf_v1.VirtualServer{}
		v.Spec.IngressClass = field
		obj = v
	case "vsr":
		v := &conf_v1.VirtualServerRoute{}
		v.Spec.IngressClass = field
		obj = v
	case "ts":
		v := &conf_v1.TransportServer{}
		v.Spec.IngressClass = field
		obj = v
	case "pol":
		v := &conf_v1.Policy{}
		v.Spec.IngressClass = field
		obj = v
	default:
		obj = &conf_v1.GlobalConfiguration{}
	}
	if lbc.HasCorrectIngressClass(obj) {
		return "1"
	}
	return "0"
}

// VerifPolicyStatus drives the real statusUpdater.UpdatePolicyStatus: the caller hands in a (possibly stale)
// Policy of class `arg`, the store holds the latest version of class `stored` ("-" = not in the store).
// Returns whether an UpdateStatus write was issued.
func VerifPolicyStatus(kv map[string]string) string {
	lbc := &LoadBalancerController{ingressClass: "nginx", Logger: verifLogger}
	mk := func(cls string) *conf_v1.Policy {
		p := &conf_v1.Policy{ObjectMeta: metav1.ObjectMeta{Namespace: "d", Name: "p"}}
		p.Spec.IngressClass = verifClass(cls)
		return p
	}
	store := cache.NewStore(cache.DeletionHandlingMetaNamespaceKeyFunc)
	var objs []runtime.Object
	if kv["stored"] != "-" {
		latest := mk(kv["stored"])
		_ = store.Add(latest)
		objs = append(objs, latest.DeepCopy())
	}
	cl := fake_nginx.NewSimpleClientset(objs...)
	su := &statusUpdater{
		confClient:             cl,
		keyFunc:                cache.DeletionHandlingMetaNamespaceKeyFunc,
		namespacedInformers:    map[string]*namespacedInformer{"": {policyLister: store}},
		hasCorrectIngressClass: lbc.HasCorrectIngressClass,
		logger:                 verifLogger,
	}
	_ = su.UpdatePolicyStatus(mk(kv["arg"]), "Valid", "AddedOrUpdated", "msg")
	for _, a := range cl.Actions() {
		if a.GetVerb() == "update" && a.GetSubresource() == "status" {
			return "write"
		}
	}
	return "none"
}
