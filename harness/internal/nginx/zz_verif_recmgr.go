//go:build verif

package nginx

import (
	"crypto/sha256"
	"encoding/hex"
	"errors"
	"net/http"
	"os"
	"regexp"
	"sort"
	"strings"

	"github.com/nginx/nginx-plus-go-client/v2/client"
)

// VerifRecManager is an in-memory nginx.Manager that records, at the Manager boundary, everything NGINX
// would see: file writes / deletes (abstracted to key/value items), reloads and NGINX Plus API pushes.
// Reload and API calls can be made to fail at chosen call indices.
//
// Abstraction of a written file: the item "f:<file>" holds a hash of the content with the primary server
// lines of upstream blocks removed; each upstream block contributes an item "u:<upstream>" holding the sorted
// list of its primary server addresses (placeholders excluded). An NGINX Plus API push replaces exactly such a list.
type VerifRecManager struct {
	Plus       bool
	Files      map[string]string            // file -> content
	Items      map[string]map[string]string // file -> items
	Log        []string
	FailReload map[int]bool // 1-based index of the Reload call that fails
	FailAPI    map[int]bool // 1-based index of the API call that fails
	NReload    int
	NAPI       int
}

// NewVerifRecManager creates an empty recording manager.
func NewVerifRecManager(plus bool) *VerifRecManager {
	return &VerifRecManager{Plus: plus, Files: map[string]string{}, Items: map[string]map[string]string{}, FailReload: map[int]bool{}, FailAPI: map[int]bool{}}
}

var (
	verifUpstreamRe = regexp.MustCompile(`(?s)upstream\s+(\S+)\s*\{(.*?)\n\s*\}`)
	verifSrvLineRe  = regexp.MustCompile(`(?m)^[ \t]*server[ \t]+([^\s;]+)([^;\n]*);[ \t]*$`)
)

func verifClean(s string) string {
	return strings.NewReplacer(",", "%2C", "|", "%7C", " ", "%20", "\n", "%0A", "=", "%3D", "#", "%23", ";", "%3B").Replace(s)
}

func verifHash(s string) string {
	h := sha256.Sum256([]byte(s))
	return hex.EncodeToString(h[:5])
}

// VerifAbstract splits a file into its items.
func VerifAbstract(file, content string) map[string]string {
	items := map[string]string{}
	static := verifUpstreamRe.ReplaceAllStringFunc(content, func(block string) string {
		m := verifUpstreamRe.FindStringSubmatch(block)
		var addrs []string
		body := verifSrvLineRe.ReplaceAllStringFunc(m[2], func(line string) string {
			lm := verifSrvLineRe.FindStringSubmatch(line)
			if strings.Contains(lm[2], "backup") {
				return line
			}
			if !strings.HasPrefix(lm[1], "unix:") && lm[1] != "127.0.0.1:8181" {
				addrs = append(addrs, lm[1])
			}
			return ""
		})
		sort.Strings(addrs)
		items["u:"+verifClean(m[1])] = strings.Join(addrs, "+")
		return "upstream " + m[1] + " { " + body + " }"
	})
	items["f:"+verifClean(file)] = verifHash(strings.Join(strings.Fields(static), " "))
	return items
}

func (m *VerifRecManager) ev(s string) { m.Log = append(m.Log, s) }

func (m *VerifRecManager) write(file, content string) bool {
	old, had := m.Files[file]
	changed := !had || old != content
	m.Files[file] = content
	if d := os.Getenv("VERIF_DUMP"); d != "" {
		_ = os.WriteFile(d+"/"+strings.ReplaceAll(file, "/", "_")+"."+verifHash(content), []byte(content), 0o644)
	}
	newItems := VerifAbstract(file, content)
	oldItems := m.Items[file]
	if changed {
		m.ev("W|" + verifClean(file) + "|1")
	} else {
		m.ev("W|" + verifClean(file) + "|0")
	}
	var keys []string
	for k := range oldItems {
		if _, ok := newItems[k]; !ok {
			keys = append(keys, k)
		}
	}
	sort.Strings(keys)
	for _, k := range keys {
		m.ev("X|" + k)
	}
	keys = keys[:0]
	for k, v := range newItems {
		if ov, ok := oldItems[k]; !ok || ov != v {
			keys = append(keys, k)
		}
	}
	sort.Strings(keys)
	for _, k := range keys {
		m.ev("S|" + k + "|" + newItems[k])
	}
	m.Items[file] = newItems
	return changed
}

func (m *VerifRecManager) remove(file string) {
	if _, ok := m.Files[file]; !ok {
		m.ev("W|" + verifClean(file) + "|0")
		return
	}
	m.ev("W|" + verifClean(file) + "|1")
	var keys []string
	for k := range m.Items[file] {
		keys = append(keys, k)
	}
	sort.Strings(keys)
	for _, k := range keys {
		m.ev("X|" + k)
	}
	delete(m.Files, file)
	delete(m.Items, file)
}

// CreateMainConfig records the main configuration.
func (m *VerifRecManager) CreateMainConfig(content []byte) bool {
	return m.write("main", string(content))
}

// CreateConfig records a conf.d file.
func (m *VerifRecManager) CreateConfig(name string, content []byte) bool {
	return m.write("conf/"+name, string(content))
}

// DeleteConfig records the removal of a conf.d file.
func (m *VerifRecManager) DeleteConfig(name string) { m.remove("conf/" + name) }

// CreateStreamConfig records a stream-conf.d file.
func (m *VerifRecManager) CreateStreamConfig(name string, content []byte) bool {
	return m.write("stream/"+name, string(content))
}

// DeleteStreamConfig records the removal of a stream-conf.d file.
func (m *VerifRecManager) DeleteStreamConfig(name string) { m.remove("stream/" + name) }

// CreateTLSPassthroughHostsConfig records the TLS passthrough hosts file.
func (m *VerifRecManager) CreateTLSPassthroughHostsConfig(content []byte) bool {
	return m.write("pt", string(content))
}

// CreateSecret records a secret file.
func (m *VerifRecManager) CreateSecret(name string, content []byte, _ os.FileMode) string {
	m.write("secret/"+name, string(content))
	return m.GetFilenameForSecret(name)
}

// DeleteSecret records the removal of a secret file.
func (m *VerifRecManager) DeleteSecret(name string) { m.remove("secret/" + name) }

// CreateAppProtectResourceFile records an App Protect file.
func (m *VerifRecManager) CreateAppProtectResourceFile(name string, content []byte) {
	m.write("ap"+name, string(content))
}

// DeleteAppProtectResourceFile records the removal of an App Protect file.
func (m *VerifRecManager) DeleteAppProtectResourceFile(name string) { m.remove("ap" + name) }

// ClearAppProtectFolder removes every recorded file of the folder.
func (m *VerifRecManager) ClearAppProtectFolder(name string) {
	var fs []string
	for f := range m.Files {
		if strings.HasPrefix(f, "ap"+name) {
			fs = append(fs, f)
		}
	}
	sort.Strings(fs)
	for _, f := range fs {
		m.remove(f)
	}
}

// GetFilenameForSecret returns the path the real manager would use.
func (m *VerifRecManager) GetFilenameForSecret(name string) string {
	return "/etc/nginx/secrets/" + name
}

// CreateDHParam records the dhparam file.
func (m *VerifRecManager) CreateDHParam(content string) (string, error) {
	m.write("secret/dhparam.pem", content)
	return "/etc/nginx/secrets/dhparam.pem", nil
}

// CreateOpenTracingTracerConfig records the tracer config.
func (m *VerifRecManager) CreateOpenTracingTracerConfig(content string) error {
	m.write("tracer", content)
	return nil
}

// Start does nothing.
func (m *VerifRecManager) Start(chan error) {}

// Version reports a fixed version.
func (m *VerifRecManager) Version() Version {
	if m.Plus {
		return NewVersion("nginx version: nginx/1.25.3 (nginx-plus-r31)")
	}
	return NewVersion("nginx version: nginx/1.25.3")
}

// Reload records a reload; it fails at the configured call indices.
func (m *VerifRecManager) Reload(isEndpointsUpdate bool) error {
	m.NReload++
	if m.FailReload[m.NReload] {
		m.ev("R|fail")
		return errors.New("injected reload failure")
	}
	m.ev("R|ok")
	return nil
}

// Quit does nothing.
func (m *VerifRecManager) Quit() {}

// UpdateConfigVersionFile does nothing.
func (m *VerifRecManager) UpdateConfigVersionFile(bool) {}

// SetPlusClients does nothing.
func (m *VerifRecManager) SetPlusClients(*client.NginxClient, *http.Client) {}

func (m *VerifRecManager) api(upstream string, servers []string) error {
	m.NAPI++
	s := append([]string(nil), servers...)
	sort.Strings(s)
	res := "ok"
	var err error
	if m.FailAPI[m.NAPI] {
		res, err = "fail", errors.New("injected API failure")
	}
	m.ev("A|u:" + verifClean(upstream) + "|" + strings.Join(s, "+") + "|" + res)
	return err
}

// UpdateServersInPlus records an API push.
func (m *VerifRecManager) UpdateServersInPlus(upstream string, servers []string, _ ServerConfig) error {
	return m.api(upstream, servers)
}

// UpdateStreamServersInPlus records an API push.
func (m *VerifRecManager) UpdateStreamServersInPlus(upstream string, servers []string) error {
	return m.api(upstream, servers)
}

// SetOpenTracing does nothing.
func (m *VerifRecManager) SetOpenTracing(bool) {}

// AppProtectPluginStart does nothing.
func (m *VerifRecManager) AppProtectPluginStart(chan error, string) {}

// AppProtectPluginQuit does nothing.
func (m *VerifRecManager) AppProtectPluginQuit() {}

// AppProtectDosAgentStart does nothing.
func (m *VerifRecManager) AppProtectDosAgentStart(chan error, bool, int, int, int) {}

// AppProtectDosAgentQuit does nothing.
func (m *VerifRecManager) AppProtectDosAgentQuit() {}

// AgentStart does nothing.
func (m *VerifRecManager) AgentStart(chan error, string) {}

// AgentQuit does nothing.
func (m *VerifRecManager) AgentQuit() {}

// AgentVersion returns nothing.
func (m *VerifRecManager) AgentVersion() string { return "" }

// GetSecretsDir returns the path the real manager would use.
func (m *VerifRecManager) GetSecretsDir() string { return "/etc/nginx/secrets" }

// UpsertSplitClientsKeyVal records a key-value push.
func (m *VerifRecManager) UpsertSplitClientsKeyVal(zone, key, value string) {
	m.ev("K|" + verifClean(zone) + "|" + verifClean(key) + "|" + verifClean(value))
}

// DeleteKeyValStateFiles does nothing.
func (m *VerifRecManager) DeleteKeyValStateFiles(string) {}

// VerifStaticSecrets lists the secret files that some configuration on disk names literally in a directive NGINX
// evaluates when it loads the configuration (anything but a `$secret_dir_path` variable reference or auth_basic_user_file).
func (m *VerifRecManager) VerifStaticSecrets() []string {
	seen := map[string]bool{}
	re := regexp.MustCompile(`(?m)^[ \t]*(\S+)[ \t]+[^;\n]*?/etc/nginx/secrets/([^\s;"]+)`)
	for f, c := range m.Files {
		if strings.HasPrefix(f, "secret/") {
			continue
		}
		for _, mm := range re.FindAllStringSubmatch(c, -1) {
			if mm[1] == "auth_basic_user_file" {
				continue
			}
			seen[mm[2]] = true
		}
	}
	var out []string
	for s := range seen {
		out = append(out, s)
	}
	sort.Strings(out)
	return out
}

// VerifTake returns and clears the event log.
func (m *VerifRecManager) VerifTake() []string {
	l := m.Log
	m.Log = nil
	return l
}
