//go:build verif

package nginx

import (
	"context"
	"encoding/hex"
	"errors"
	"fmt"
	"io"
	"log/slog"
	"net"
	"net/http"
	"os"
	"path/filepath"
	"regexp"
	"strconv"
	"strings"
	"sync"
	"time"

	"github.com/nginx/kubernetes-ingress/internal/metrics/collectors"
	"github.com/nginx/nginx-plus-go-client/v2/client"
)

// verifPoll is one scripted answer of the version endpoint.
type verifPoll struct {
	kind string // b (200 with body), n (non-200), e (transport error)
	body string
	cost time.Duration
}

// verifScript answers polls in order; when exhausted it hangs until the
// request context is cancelled (a dead endpoint).
type verifScript struct {
	mu    sync.Mutex
	polls []verifPoll
	next  int
	seen  int
}

func (s *verifScript) RoundTrip(req *http.Request) (*http.Response, error) {
	s.mu.Lock()
	i := s.next
	s.next++
	s.seen++
	s.mu.Unlock()
	if i >= len(s.polls) {
		<-req.Context().Done()
		return nil, req.Context().Err()
	}
	p := s.polls[i]
	if p.cost > 0 {
		select {
		case <-time.After(p.cost):
		case <-req.Context().Done():
			return nil, req.Context().Err()
		}
	}
	switch p.kind {
	case "e":
		return nil, errors.New("scripted transport error")
	case "n":
		return &http.Response{StatusCode: 503, Body: io.NopCloser(strings.NewReader("x")), Header: http.Header{}, Request: req}, nil
	default:
		return &http.Response{StatusCode: 200, Body: io.NopCloser(strings.NewReader(p.body)), Header: http.Header{}, Request: req}, nil
	}
}

func verifParseSched(s string) []verifPoll {
	var out []verifPoll
	if s == "" || s == "-" {
		return out
	}
	for _, t := range strings.Split(s, ",") {
		f := strings.Split(t, ":")
		p := verifPoll{kind: f[0]}
		if f[0] == "b" {
			b, _ := hex.DecodeString(f[1])
			p.body = string(b)
			c, _ := strconv.Atoi(f[2])
			p.cost = time.Duration(c) * time.Millisecond
		} else {
			c, _ := strconv.Atoi(f[1])
			p.cost = time.Duration(c) * time.Millisecond
		}
		out = append(out, p)
	}
	return out
}

var verifLogger = slog.New(slog.NewTextHandler(io.Discard, nil))

// VerifWait drives the real WaitForCorrectVersion against a scripted endpoint.
// fields: exp=<int> timeout=<ms> sched=<polls>
func VerifWait(kv map[string]string) string {
	exp, _ := strconv.Atoi(kv["exp"])
	to, _ := strconv.Atoi(kv["timeout"])
	sc := &verifScript{polls: verifParseSched(kv["sched"])}
	c := &verifyClient{client: &http.Client{Transport: sc}, timeout: time.Duration(to) * time.Millisecond}
	err, hung := verifWatch(time.Duration(to)*time.Millisecond, func() error { return c.WaitForCorrectVersion(verifLogger, exp) })
	res := "ok"
	if hung {
		// neither success nor failure long after the configured timeout (the wait goes on in its goroutine; the process is short-lived)
		return fmt.Sprintf("hang polls=%d", sc.pollsSeen())
	}
	if err != nil {
		res = "fail"
	}
	return fmt.Sprintf("%s polls=%d", res, sc.seen)
}

func (s *verifScript) pollsSeen() int {
	s.mu.Lock()
	defer s.mu.Unlock()
	return s.seen
}

// verifWatch runs a wait that the configured timeout bounds. The real loop checks its deadline between polls and every poll is itself
// bounded by the timeout, so it returns within about twice the timeout; "hung" = still running after eight times the timeout plus
// three seconds (generous: the harness runs beside other work).
func verifWatch(timeout time.Duration, f func() error) (error, bool) {
	done := make(chan error, 1)
	go func() { done <- f() }()
	limit := 8*timeout + 3*time.Second
	if verifHangs >= 3 {
		// the wait has already been seen to hang three times in this process: the verdict is in, do not spend minutes on the rest
		limit = 3*timeout + time.Second
	}
	select {
	case err := <-done:
		return err, false
	case <-time.After(limit):
		verifHangs++
		return nil, true
	}
}

var verifHangs int

// VerifAtoi exposes what GetConfigVersion makes of one answer.
// fields: ans=<poll>
func VerifAtoi(kv map[string]string) string {
	sc := &verifScript{polls: verifParseSched(kv["ans"])}
	c := &verifyClient{client: &http.Client{Transport: sc}, timeout: 2 * time.Second}
	v, err := c.GetConfigVersion()
	if err != nil {
		return "none"
	}
	return fmt.Sprintf("some:%d", v)
}

var (
	verifReturnRe = regexp.MustCompile(`return 200 ([^;]*);`)
	verifMapRe    = regexp.MustCompile(`\n\t"([^"]*)" "";`)
)

// apiRecorder is the transport behind the NGINX Plus API client: it records
// whether any API request was attempted and always fails it.
type apiRecorder struct{ calls int }

func (a *apiRecorder) RoundTrip(_ *http.Request) (*http.Response, error) {
	a.calls++
	return nil, errors.New("scripted api failure")
}

// checkRecorder plays the worker's /configVersionCheck: 200 iff the expected
// version header equals the version the (scripted) worker runs.
type checkRecorder struct {
	worker string // version served by the worker, or "err"
	hdr    string
}

func (c *checkRecorder) RoundTrip(req *http.Request) (*http.Response, error) {
	c.hdr = req.Header.Get("x-expected-config-version")
	if c.worker == "err" {
		return nil, errors.New("scripted check failure")
	}
	code := 200
	if c.hdr != c.worker {
		code = 503
	}
	return &http.Response{StatusCode: code, Body: io.NopCloser(strings.NewReader("")), Header: http.Header{}, Request: req}, nil
}

// VerifMgr drives the real LocalManager through reloads and API pushes.
// fields: timeout=<ms> ops=<op;op;...>
//
//	op = r/<bin 0|1>/<sched>     Reload with the fake nginx binary failing(0)/succeeding(1)
//	op = u/<worker>              UpdateServersInPlus against a worker serving <worker> (number|err|cur)
//	op = s/<worker>              UpdateStreamServersInPlus, same
//
// The fake binary exists only when the harness was started in a mount
// namespace that provides /usr/sbin/nginx; otherwise bin=1 cases report
// "nobin" and are skipped by the caller.
func VerifMgr(kv map[string]string) string {
	to, _ := strconv.Atoi(kv["timeout"])
	dir, err := os.MkdirTemp("", "verif-c13-")
	if err != nil {
		return "tmp-error"
	}
	defer os.RemoveAll(dir)
	_, statErr := os.Stat(nginxBinaryPath)
	haveBin := statErr == nil
	lm := NewLocalManager(context.Background(), dir, false, collectors.NewManagerFakeCollector(), nil, time.Duration(to)*time.Millisecond, true)
	lm.logger = verifLogger
	var out []string
	for _, op := range strings.Split(kv["ops"], ";") {
		f := strings.Split(op, "/")
		switch f[0] {
		case "r":
			if f[1] == "1" && !haveBin {
				return "nobin"
			}
			rc := filepath.Join(dir, "rc")
			if f[1] == "1" {
				_ = os.WriteFile(rc, []byte("0"), 0o600)
			} else {
				_ = os.WriteFile(rc, []byte("1"), 0o600)
			}
			os.Setenv("VERIF_NGINX_RC", rc)
			sc := &verifScript{polls: verifParseSched(f[2])}
			lm.verifyClient = &verifyClient{client: &http.Client{Transport: sc}, timeout: time.Duration(to) * time.Millisecond}
			err, hung := verifWatch(time.Duration(to)*time.Millisecond, func() error { return lm.Reload(false) })
			res := "ok"
			if hung {
				return strings.Join(append(out, "r:hang"), ";")
			}
			if err != nil {
				res = "fail"
			}
			b, _ := os.ReadFile(lm.configVersionFilename)
			ret, mp := "?", "?"
			if m := verifReturnRe.FindSubmatch(b); m != nil {
				ret = string(m[1])
			}
			if m := verifMapRe.FindSubmatch(b); m != nil {
				mp = string(m[1])
			}
			out = append(out, fmt.Sprintf("r:%s:%d:%s:%s:%d", res, lm.configVersion, ret, mp, sc.seen))
		case "U", "S":
			// over a real unix socket with ONE shared http.Client for the version check and the API (as cmd/nginx-ingress wires
			// them): the i-th connection the server accepts belongs to a worker process running version workers[i] (the last entry
			// repeats). A worker answers the check with 200 iff it runs the expected version; an API request that arrives on a
			// connection whose worker never answered 200 reached a worker that did not confirm the current version.
			var workers []string
			for _, w := range strings.Split(f[1], "+") {
				switch w {
				case "cur":
					w = strconv.Itoa(lm.configVersion)
				case "old":
					w = strconv.Itoa(lm.configVersion - 1)
				}
				workers = append(workers, w)
			}
			res, unconfirmed, apis := verifSocketUpdate(lm, dir, workers, f[0] == "S")
			out = append(out, fmt.Sprintf("%s:%s:%d:%d", f[0], res, unconfirmed, apis))
		case "u", "s":
			worker := f[1]
			if worker == "cur" {
				worker = strconv.Itoa(lm.configVersion)
			}
			chk := &checkRecorder{worker: worker}
			api := &apiRecorder{}
			pc, err := client.NewNginxClient("http://nginx-plus-api/api", client.WithHTTPClient(&http.Client{Transport: api}), client.WithMaxAPIVersion())
			if err != nil {
				return "client-error"
			}
			api.calls = 0
			lm.SetPlusClients(pc, &http.Client{Transport: chk})
			if f[0] == "u" {
				err = lm.UpdateServersInPlus("up", []string{"10.0.0.1:80"}, ServerConfig{})
			} else {
				err = lm.UpdateStreamServersInPlus("up", []string{"10.0.0.1:80"})
			}
			res := "ok"
			if err != nil {
				res = "fail"
			}
			called := 0
			if api.calls > 0 {
				called = 1
			}
			out = append(out, fmt.Sprintf("%s:%s:%s:%d", f[0], res, chk.hdr, called))
		}
	}
	return strings.Join(out, ";")
}

// verifSocketUpdate runs one UpdateServersInPlus / UpdateStreamServersInPlus against a unix-socket server that plays NGINX
// workers of several generations (see the "U" op). Returns the operation's result, the number of API requests served by a
// worker that had not confirmed the version on that connection, and whether any API request was seen (0/1).
func verifSocketUpdate(lm *LocalManager, dir string, workers []string, stream bool) (string, int, int) {
	sock := filepath.Join(dir, fmt.Sprintf("api-%d.sock", time.Now().UnixNano()))
	ln, err := net.Listen("unix", sock)
	if err != nil {
		return "listen-error", 0, 0
	}
	defer ln.Close()
	var mu sync.Mutex
	nconn, unconfirmed, apis := 0, 0, 0
	type connKey struct{}
	srv := &http.Server{
		ConnContext: func(ctx context.Context, _ net.Conn) context.Context {
			mu.Lock()
			i := nconn
			nconn++
			mu.Unlock()
			if i >= len(workers) {
				i = len(workers) - 1
			}
			st := &struct {
				version   string
				confirmed bool
			}{version: workers[i]}
			return context.WithValue(ctx, connKey{}, st)
		},
		Handler: http.HandlerFunc(func(w http.ResponseWriter, r *http.Request) {
			st := r.Context().Value(connKey{}).(*struct {
				version   string
				confirmed bool
			})
			if strings.HasPrefix(r.URL.Path, "/configVersionCheck") {
				if r.Header.Get("x-expected-config-version") == st.version {
					st.confirmed = true
					w.WriteHeader(200)
				} else {
					w.WriteHeader(503)
				}
				return
			}
			mu.Lock()
			apis++
			if !st.confirmed {
				unconfirmed++
			}
			mu.Unlock()
			w.Header().Set("Content-Type", "application/json")
			switch {
			case r.Method == http.MethodGet && strings.HasSuffix(strings.TrimSuffix(r.URL.Path, "/"), "/api"):
				_, _ = w.Write([]byte("[4,5,6,7,8,9]"))
			case r.Method == http.MethodGet:
				_, _ = w.Write([]byte("[]"))
			default:
				w.WriteHeader(201)
				_, _ = w.Write([]byte("{}"))
			}
		}),
	}
	go func() { _ = srv.Serve(ln) }()
	defer srv.Close()
	hc := &http.Client{Transport: &http.Transport{DialContext: func(_ context.Context, _, _ string) (net.Conn, error) { return net.Dial("unix", sock) }}}
	pc, err := client.NewNginxClient("http://nginx-plus-api/api", client.WithHTTPClient(hc), client.WithAPIVersion(9), client.WithCheckAPI())
	if err != nil {
		pc, err = client.NewNginxClient("http://nginx-plus-api/api", client.WithHTTPClient(hc))
		if err != nil {
			return "client-error", 0, 0
		}
	}
	// what the client did while it was being set up does not count, and its connections are dropped: the update starts fresh
	hc.CloseIdleConnections()
	mu.Lock()
	nconn, unconfirmed, apis = 0, 0, 0
	mu.Unlock()
	lm.SetPlusClients(pc, hc)
	if stream {
		err = lm.UpdateStreamServersInPlus("up", []string{"10.0.0.1:80"})
	} else {
		err = lm.UpdateServersInPlus("up", []string{"10.0.0.1:80"}, ServerConfig{})
	}
	res := "ok"
	if err != nil {
		res = "fail"
	}
	mu.Lock()
	defer mu.Unlock()
	a := 0
	if apis > 0 {
		a = 1
	}
	return res, unconfirmed, a
}
