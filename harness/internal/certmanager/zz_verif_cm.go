//go:build verif

package certmanager

import (
	"context"
	"errors"
	"fmt"
	"reflect"
	"sort"
	"strconv"
	"strings"

	cmapi "github.com/cert-manager/cert-manager/pkg/apis/certmanager/v1"
	cmfake "github.com/cert-manager/cert-manager/pkg/client/clientset/versioned/fake"
	cmlisters "github.com/cert-manager/cert-manager/pkg/client/listers/certmanager/v1"
	vsapi "github.com/nginx/kubernetes-ingress/pkg/apis/configuration/v1"
	apierrors "k8s.io/apimachinery/pkg/api/errors"
	metav1 "k8s.io/apimachinery/pkg/apis/meta/v1"
	"k8s.io/apimachinery/pkg/runtime"
	"k8s.io/apimachinery/pkg/runtime/schema"
	"k8s.io/apimachinery/pkg/types"
	k8stesting "k8s.io/client-go/testing"
	"k8s.io/client-go/tools/cache"
	"k8s.io/client-go/tools/record"
)

func verifUnq(s string) string {
	if s == "_" {
		return ""
	}
	return s
}

// verifVS: secret,host,issuer,cn,dur,renew,usages,group,kind,temp,label,cm
func verifVS(s string) *vsapi.VirtualServer {
	f := strings.Split(s, ",")
	vs := &vsapi.VirtualServer{ObjectMeta: metav1.ObjectMeta{Namespace: "d", Name: "vs", UID: types.UID("uid-vs")}}
	vs.Spec.Host = f[1]
	if l := verifUnq(f[10]); l != "" {
		vs.Labels = map[string]string{"l": l}
	}
	vs.Spec.TLS = &vsapi.TLS{Secret: f[0]}
	if f[11] == "1" {
		vs.Spec.TLS.CertManager = &vsapi.CertManager{Issuer: verifUnq(f[2]), CommonName: verifUnq(f[3]), Duration: verifUnq(f[4]), RenewBefore: verifUnq(f[5]),
			Usages: strings.ReplaceAll(verifUnq(f[6]), "+", ","), IssuerGroup: verifUnq(f[7]), IssuerKind: verifUnq(f[8]), IssueTempCert: f[9] == "1"}
	}
	return vs
}

// verifSeen: what the API server held for each Certificate when the lister cache was last refreshed (per clientset).
var verifSeen = map[*cmfake.Clientset]map[string]*cmapi.Certificate{}

// verifMirror brings the lister cache up to date the way an informer does: an object in the cache is replaced only when the API
// server's copy has changed since the last refresh (a watch event); an object whose stored copy did not change — for instance
// because a write failed — stays in the cache as it is, including anything the code under test did to it.
func verifMirror(cl *cmfake.Clientset, idx cache.Indexer) {
	seen := verifSeen[cl]
	if seen == nil {
		seen = map[string]*cmapi.Certificate{}
		verifSeen[cl] = seen
	}
	l, _ := cl.CertmanagerV1().Certificates("d").List(context.Background(), metav1.ListOptions{})
	present := map[string]bool{}
	for i := range l.Items {
		it := &l.Items[i]
		key := it.Namespace + "/" + it.Name
		present[key] = true
		if old, ok := seen[key]; ok && reflect.DeepEqual(old, it) {
			continue
		}
		seen[key] = it.DeepCopy()
		if _, exists, _ := idx.GetByKey(key); exists {
			_ = idx.Update(it.DeepCopy())
		} else {
			_ = idx.Add(it.DeepCopy())
		}
	}
	for _, o := range idx.List() {
		c := o.(*cmapi.Certificate)
		key := c.Namespace + "/" + c.Name
		if !present[key] {
			_ = idx.Delete(o)
			delete(seen, key)
		}
	}
}

func verifWrites(cl *cmfake.Clientset, from int) []string {
	var out []string
	for _, a := range cl.Actions()[from:] {
		switch a.GetVerb() {
		case "create":
			out = append(out, "C:"+a.(k8stesting.CreateAction).GetObject().(*cmapi.Certificate).Name)
		case "update":
			out = append(out, "U:"+a.(k8stesting.UpdateAction).GetObject().(*cmapi.Certificate).Name)
		case "delete":
			out = append(out, "D:"+a.(k8stesting.DeleteAction).GetName())
		}
	}
	return out
}

func verifSyncOn(vs *vsapi.VirtualServer, objs []runtime.Object) (*cmfake.Clientset, cache.Indexer, SyncFn) {
	cl := cmfake.NewSimpleClientset(objs...)
	idx := cache.NewIndexer(cache.MetaNamespaceKeyFunc, cache.Indexers{cache.NamespaceIndex: cache.MetaNamespaceIndexFunc})
	ig := map[string]*namespacedInformer{"": {cmLister: cmlisters.NewCertificateLister(idx)}}
	verifMirror(cl, idx)
	return cl, idx, SyncFnFor(record.NewFakeRecorder(1000), cl, ig)
}

func verifEssence(c *cmapi.Certificate) string {
	return fmt.Sprintf("%v|%v|%v", c.Spec, c.Labels, c.Annotations[certMgrTempCertAnnotation])
}

// VerifCert runs VirtualServer edit sequences through the real SyncFnFor against the fake cert-manager clientset.
// kv: pre=none|unowned|foreign (a Certificate named like the first secret already exists) seq=vs;vs;... fault=<step>:<conflict|exists|fail>|-
func VerifCert(kv map[string]string) string {
	seq := strings.Split(kv["seq"], ";")
	first := verifVS(seq[0])
	var objs []runtime.Object
	var foreign *cmapi.Certificate
	switch kv["pre"] {
	case "unowned", "foreign":
		pname := first.Spec.TLS.Secret
		if kv["prename"] != "" {
			pname = kv["prename"]
		}
		foreign = &cmapi.Certificate{ObjectMeta: metav1.ObjectMeta{Namespace: "d", Name: pname},
			Spec: cmapi.CertificateSpec{SecretName: pname, DNSNames: []string{"someone-else.ex"}}}
		if kv["pre"] == "foreign" {
			other := &vsapi.VirtualServer{ObjectMeta: metav1.ObjectMeta{Namespace: "d", Name: "other", UID: "uid-other"}}
			foreign.OwnerReferences = []metav1.OwnerReference{*metav1.NewControllerRef(other, vsGVK)}
		}
		objs = append(objs, foreign.DeepCopy())
	case "ownedstale":
		// a Certificate this VirtualServer controls, left over from an earlier secret name, whose labels are not the
		// VirtualServer's current ones
		pname := "s0"
		if kv["prename"] != "" {
			pname = kv["prename"]
		}
		stale := &cmapi.Certificate{ObjectMeta: metav1.ObjectMeta{Namespace: "d", Name: pname, Labels: map[string]string{"l": "stale"}},
			Spec: cmapi.CertificateSpec{SecretName: pname, DNSNames: []string{first.Spec.Host}}}
		stale.OwnerReferences = []metav1.OwnerReference{*metav1.NewControllerRef(first, vsGVK)}
		objs = append(objs, stale)
	}
	cl, idx, sync := verifSyncOn(first, objs)
	faultStep, faultKind := -1, ""
	if kv["fault"] != "" && kv["fault"] != "-" {
		p := strings.Split(kv["fault"], ":")
		faultStep, _ = strconv.Atoi(p[0])
		faultKind = p[1]
	}
	armed := false
	cl.PrependReactor("*", "certificates", func(a k8stesting.Action) (bool, runtime.Object, error) {
		if !armed || (a.GetVerb() != "create" && a.GetVerb() != "update" && a.GetVerb() != "delete") {
			return false, nil, nil
		}
		armed = false
		gr := schema.GroupResource{Group: "cert-manager.io", Resource: "certificates"}
		switch faultKind {
		case "conflict":
			return true, nil, apierrors.NewConflict(gr, "x", errors.New("injected"))
		case "exists":
			return true, nil, apierrors.NewAlreadyExists(gr, "x")
		}
		return true, nil, errors.New("injected failure")
	})
	var out []string
	for i, s := range seq {
		vs := verifVS(s)
		from := len(cl.Actions())
		armed = i == faultStep
		err := sync(context.Background(), vs)
		verifMirror(cl, idx)
		retries := 0
		for err != nil && retries < 3 {
			retries++
			err = sync(context.Background(), vs)
			verifMirror(cl, idx)
		}
		acts := verifWrites(cl, from)
		e := 0
		if err != nil {
			e = 1
		}
		// idempotence: a second synchronization performs no write
		from2 := len(cl.Actions())
		_ = sync(context.Background(), vs)
		verifMirror(cl, idx)
		idem := len(verifWrites(cl, from2))
		// freshness: the stored object equals what a first-time synchronization of the same VirtualServer creates
		fresh := "na"
		if vs.Spec.TLS.CertManager != nil && err == nil {
			cl0, _, sync0 := verifSyncOn(vs, nil)
			_ = sync0(context.Background(), vs)
			want, werr := cl0.CertmanagerV1().Certificates("d").Get(context.Background(), vs.Spec.TLS.Secret, metav1.GetOptions{})
			got, gerr := cl.CertmanagerV1().Certificates("d").Get(context.Background(), vs.Spec.TLS.Secret, metav1.GetOptions{})
			switch {
			case werr != nil:
				fresh = "nodesired"
			case gerr != nil:
				fresh = "missing"
			case !metav1.IsControlledBy(got, vs):
				fresh = "notours"
			case verifEssence(got) == verifEssence(want):
				fresh = "1"
			default:
				fresh = "0"
			}
		}
		// foreign objects are never touched
		untouched := "na"
		if foreign != nil {
			cur, gerr := cl.CertmanagerV1().Certificates("d").Get(context.Background(), foreign.Name, metav1.GetOptions{})
			if gerr == nil && reflect.DeepEqual(cur.Spec, foreign.Spec) && reflect.DeepEqual(cur.OwnerReferences, foreign.OwnerReferences) {
				untouched = "1"
			} else {
				untouched = "0"
			}
		}
		var owned []string
		l, _ := cl.CertmanagerV1().Certificates("d").List(context.Background(), metav1.ListOptions{})
		for i := range l.Items {
			if metav1.IsControlledBy(&l.Items[i], vs) {
				owned = append(owned, l.Items[i].Name)
			}
		}
		sort.Strings(owned)
		out = append(out, fmt.Sprintf("err=%d#a=%s#idem=%d#fresh=%s#foreign=%s#owned=%s", e, strings.Join(acts, "+"), idem, fresh, untouched, strings.Join(owned, "+")))
	}
	return strings.Join(out, ";;")
}
