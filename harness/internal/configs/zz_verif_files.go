//go:build verif

package configs

import (
	"context"
	"crypto/ecdsa"
	"crypto/elliptic"
	"crypto/rand"
	"crypto/sha256"
	"crypto/x509"
	"crypto/x509/pkix"
	"encoding/hex"
	"encoding/pem"
	"fmt"
	"io"
	"log/slog"
	"math/big"
	"os"
	"path/filepath"
	"regexp"
	"sort"
	"strconv"
	"strings"
	"time"

	"github.com/nginx/kubernetes-ingress/internal/configs/version1"
	"github.com/nginx/kubernetes-ingress/internal/configs/version2"
	"github.com/nginx/kubernetes-ingress/internal/k8s/secrets"
	nl "github.com/nginx/kubernetes-ingress/internal/logger"
	"github.com/nginx/kubernetes-ingress/internal/metrics/collectors"
	"github.com/nginx/kubernetes-ingress/internal/nginx"
	conf_v1 "github.com/nginx/kubernetes-ingress/pkg/apis/configuration/v1"
	api_v1 "k8s.io/api/core/v1"
	networking "k8s.io/api/networking/v1"
	meta_v1 "k8s.io/apimachinery/pkg/apis/meta/v1"
	k8stypes "k8s.io/apimachinery/pkg/types"
)

var verifLog = slog.New(slog.NewTextHandler(io.Discard, nil))

func verifRepo() string {
	if r := os.Getenv("VERIF_REPO"); r != "" {
		return r
	}
	return "/repo"
}

// VerifNewConfigurator builds a real Configurator over a real LocalManager rooted at dir, with the real templates.
func VerifNewConfigurator(dir string, isPlus bool) (*Configurator, *nginx.LocalManager, error) {
	base := filepath.Join(verifRepo(), "internal", "configs")
	main, ing := "version1/nginx.tmpl", "version1/nginx.ingress.tmpl"
	vs, ts := "version2/nginx.virtualserver.tmpl", "version2/nginx.transportserver.tmpl"
	if isPlus {
		main, ing = "version1/nginx-plus.tmpl", "version1/nginx-plus.ingress.tmpl"
		vs, ts = "version2/nginx-plus.virtualserver.tmpl", "version2/nginx-plus.transportserver.tmpl"
	}
	te, err := version1.NewTemplateExecutor(filepath.Join(base, main), filepath.Join(base, ing))
	if err != nil {
		return nil, nil, err
	}
	te2, err := version2.NewTemplateExecutor(filepath.Join(base, vs), filepath.Join(base, ts))
	if err != nil {
		return nil, nil, err
	}
	for _, d := range []string{"conf.d", "stream-conf.d", "secrets", "state_files"} {
		_ = os.MkdirAll(filepath.Join(dir, d), 0o755)
	}
	ctx := nl.ContextWithLogger(context.Background(), verifLog)
	lm := nginx.NewLocalManager(ctx, dir+"/", false, collectors.NewManagerFakeCollector(), nil, time.Second, isPlus)
	cnf := NewConfigurator(ConfiguratorParams{
		NginxManager: lm,
		StaticCfgParams: &StaticConfigParams{NginxStatus: true, NginxStatusAllowCIDRs: []string{"127.0.0.1"}, NginxStatusPort: 8080,
			TLSPassthrough: true, NginxVersion: nginx.NewVersion("nginx version: nginx/1.25.3")},
		Config:             NewDefaultConfigParams(ctx, isPlus),
		MGMTCfgParams:      NewDefaultMGMTConfigParams(ctx),
		TemplateExecutor:   te,
		TemplateExecutorV2: te2,
		IsPlus:             isPlus,
		NginxVersion:       nginx.NewVersion("nginx version: nginx/1.25.3"),
	})
	return cnf, lm, nil
}

func verifAddr(uid int) string { return fmt.Sprintf("10.0.%d.%d:80", uid/250, uid%250+1) }

var verifServerRe = regexp.MustCompile(`server (10\.0\.\d+\.\d+:80)`)

func verifOwner(path string) string {
	b, err := os.ReadFile(path)
	if err != nil {
		return "?"
	}
	m := verifServerRe.FindSubmatch(b)
	if m == nil {
		return "-"
	}
	var a, c int
	fmt.Sscanf(string(m[1]), "10.0.%d.%d:80", &a, &c)
	return strconv.Itoa(a*250 + c - 1)
}

func verifListing(dir string) string {
	es, _ := os.ReadDir(dir)
	var out []string
	for _, e := range es {
		if e.IsDir() {
			continue
		}
		out = append(out, e.Name()+"@"+verifOwner(filepath.Join(dir, e.Name())))
	}
	sort.Strings(out)
	return strings.Join(out, ",")
}

var verifPtRe = regexp.MustCompile(`(?m)^\s*(\S+)\s+unix:/var/lib/nginx/passthrough-([^;]*)\.sock;`)

func verifPassthrough(root string) string {
	b, err := os.ReadFile(filepath.Join(root, "tls-passthrough-hosts.conf"))
	if err != nil {
		return "nofile"
	}
	var out []string
	for _, m := range verifPtRe.FindAllStringSubmatch(string(b), -1) {
		out = append(out, m[1]+"="+m[2])
	}
	sort.Strings(out)
	return strings.Join(out, ",")
}

func verifIngEx(ns, name string, uid int) *IngressEx {
	pt := networking.PathTypePrefix
	ing := &networking.Ingress{ObjectMeta: meta_v1.ObjectMeta{Namespace: ns, Name: name}}
	ing.Spec.Rules = []networking.IngressRule{{Host: fmt.Sprintf("h%d.ex", uid), IngressRuleValue: networking.IngressRuleValue{
		HTTP: &networking.HTTPIngressRuleValue{Paths: []networking.HTTPIngressPath{{Path: "/", PathType: &pt,
			Backend: networking.IngressBackend{Service: &networking.IngressServiceBackend{Name: "svc", Port: networking.ServiceBackendPort{Number: 80}}}}}}}}}
	return &IngressEx{Ingress: ing, Endpoints: map[string][]string{"svc80": {verifAddr(uid)}}, ValidHosts: map[string]bool{fmt.Sprintf("h%d.ex", uid): true},
		SecretRefs: map[string]*secrets.SecretReference{}}
}

func verifVsEx(ns, name string, uid int) *VirtualServerEx {
	vs := &conf_v1.VirtualServer{ObjectMeta: meta_v1.ObjectMeta{Namespace: ns, Name: name}}
	vs.Spec.Host = fmt.Sprintf("h%d.ex", uid)
	vs.Spec.Upstreams = []conf_v1.Upstream{{Name: "u", Service: "svc", Port: 80}}
	vs.Spec.Routes = []conf_v1.Route{{Path: "/", Action: &conf_v1.Action{Pass: "u"}}}
	return &VirtualServerEx{VirtualServer: vs, Endpoints: map[string][]string{ns + "/svc:80": {verifAddr(uid)}}}
}

func verifTsEx(ns, name string, uid int, passthroughHost string) *TransportServerEx {
	ts := &conf_v1.TransportServer{ObjectMeta: meta_v1.ObjectMeta{Namespace: ns, Name: name}}
	if passthroughHost != "" {
		ts.Spec.Listener = conf_v1.TransportServerListener{Name: conf_v1.TLSPassthroughListenerName, Protocol: conf_v1.TLSPassthroughListenerProtocol}
		ts.Spec.Host = passthroughHost
	} else {
		ts.Spec.Listener = conf_v1.TransportServerListener{Name: "tcp1", Protocol: "TCP"}
	}
	ts.Spec.Upstreams = []conf_v1.TransportServerUpstream{{Name: "u", Service: "svc", Port: 80}}
	ts.Spec.Action = &conf_v1.TransportServerAction{Pass: "u"}
	return &TransportServerEx{TransportServer: ts, ListenerPort: 5000, Endpoints: map[string][]string{ns + "/svc:80": {verifAddr(uid)}}}
}

// VerifFiles runs a sequence of Configurator operations on a real directory.
// kv: plus, ops = op;op;...   with op =
//
//	ai|ns|name|uid   add/update Ingress          di|ns/name   delete Ingress      bi|k+k  batch delete Ingresses
//	av|ns|name|uid   add/update VirtualServer    dv|ns/name                       bv|k+k  batch delete VirtualServers
//	at|ns|name|uid|host  add/update TransportServer (host "_" = TCP listener, else TLS passthrough)   dt|ns/name   bt|k+k  UpdateTransportServers(nil, keys)
//	rs               restart: new Configurator and LocalManager on the same directory
func VerifFiles(kv map[string]string) string {
	root, err := os.MkdirTemp("", "verif-c10-")
	if err != nil {
		return "tmp-error"
	}
	defer os.RemoveAll(root)
	isPlus := kv["plus"] == "1"
	cnf, _, err := VerifNewConfigurator(root, isPlus)
	if err != nil {
		return "setup-error:" + strings.ReplaceAll(err.Error(), " ", "_")
	}
	var out []string
	for _, op := range strings.Split(kv["ops"], ";") {
		f := strings.Split(op, "|")
		res := "ok"
		chk := func(e error) {
			if e != nil {
				res = "err"
			}
		}
		switch f[0] {
		case "ai":
			uid, _ := strconv.Atoi(f[3])
			_, e := cnf.AddOrUpdateIngress(verifIngEx(f[1], f[2], uid))
			chk(e)
		case "av":
			uid, _ := strconv.Atoi(f[3])
			_, e := cnf.AddOrUpdateVirtualServer(verifVsEx(f[1], f[2], uid))
			chk(e)
		case "at":
			uid, _ := strconv.Atoi(f[3])
			host := f[4]
			if host == "_" {
				host = ""
			}
			_, e := cnf.AddOrUpdateTransportServer(verifTsEx(f[1], f[2], uid, host))
			chk(e)
		case "di":
			chk(cnf.DeleteIngress(f[1], false))
		case "dv":
			chk(cnf.DeleteVirtualServer(f[1], false))
		case "dt":
			chk(cnf.DeleteTransportServer(f[1]))
		case "bi":
			for _, e := range cnf.BatchDeleteIngresses(strings.Split(f[1], "+")) {
				chk(e)
			}
		case "bv":
			for _, e := range cnf.BatchDeleteVirtualServers(strings.Split(f[1], "+")) {
				chk(e)
			}
		case "bt":
			// the batch path of cleanupUnwatchedNamespacedResources: UpdateTransportServers(nil, keys)
			for _, e := range cnf.UpdateTransportServers(nil, strings.Split(f[1], "+")) {
				chk(e)
			}
		case "rs":
			var lm *nginx.LocalManager
			cnf, lm, err = VerifNewConfigurator(root, isPlus)
			if err != nil {
				return "setup-error"
			}
			// what cmd/nginx-ingress/main.go does at start-up when TLS passthrough is enabled (pinned: props/C10.py STARTUP_PIN):
			// the hosts map is written empty before NGINX is started
			var emptyFile []byte
			lm.CreateTLSPassthroughHostsConfig(emptyFile)
		default:
			res = "bad-op"
		}
		out = append(out, fmt.Sprintf("%s#conf=%s#stream=%s#pt=%s", res, verifListing(filepath.Join(root, "conf.d")),
			verifListing(filepath.Join(root, "stream-conf.d")), verifPassthrough(root)))
	}
	return strings.Join(out, ";;")
}

// ---------------------------------------------------------------- secrets (C11)

type verifKeyPair struct{ cert, key []byte }

var verifPairs = map[string]verifKeyPair{}

func verifGenPair(cn string) verifKeyPair {
	k, _ := ecdsa.GenerateKey(elliptic.P256(), rand.Reader)
	tmpl := &x509.Certificate{SerialNumber: big.NewInt(time.Now().UnixNano()), Subject: pkix.Name{CommonName: cn},
		NotBefore: time.Now().Add(-time.Hour), NotAfter: time.Now().Add(24 * time.Hour), IsCA: true, BasicConstraintsValid: true,
		KeyUsage: x509.KeyUsageDigitalSignature | x509.KeyUsageCertSign}
	der, _ := x509.CreateCertificate(rand.Reader, tmpl, tmpl, &k.PublicKey, k)
	kb, _ := x509.MarshalECPrivateKey(k)
	return verifKeyPair{pem.EncodeToMemory(&pem.Block{Type: "CERTIFICATE", Bytes: der}), pem.EncodeToMemory(&pem.Block{Type: "EC PRIVATE KEY", Bytes: kb})}
}

// verifPair returns a key pair that is unique to the label (secret key + version), so that the content of
// a derived file identifies the secret version it came from.
func verifPair(label string) verifKeyPair {
	p, ok := verifPairs[label]
	if !ok {
		p = verifGenPair(label)
		verifPairs[label] = p
	}
	return p
}

// verifSecret builds a Secret: typ tls|jwk|htp|ca|oidc|api|lic|opaque, payload ok|mismatch|nonpem|missing|dup, version n.
// Every version of every secret has distinct content (a version comment for text payloads, one of four key pairs for PEM).
func verifSecret(ns, name, typ, payload string, ver int) *api_v1.Secret {
	s := &api_v1.Secret{ObjectMeta: meta_v1.ObjectMeta{Namespace: ns, Name: name}, Data: map[string][]byte{}}
	tag := []byte(fmt.Sprintf("%s/%s@%d", ns, name, ver))
	switch typ {
	case "tls":
		s.Type = api_v1.SecretTypeTLS
		p := verifPair(string(tag))
		s.Data[api_v1.TLSCertKey], s.Data[api_v1.TLSPrivateKeyKey] = p.cert, p.key
		switch payload {
		case "mismatch":
			s.Data[api_v1.TLSPrivateKeyKey] = verifPair(string(tag) + "-other").key
		case "nonpem":
			s.Data[api_v1.TLSCertKey] = tag
		case "missing":
			delete(s.Data, api_v1.TLSPrivateKeyKey)
		}
	case "jwk":
		s.Type = secrets.SecretTypeJWK
		if payload != "missing" {
			s.Data[secrets.JWTKeyKey] = tag
		}
	case "htp":
		s.Type = secrets.SecretTypeHtpasswd
		if payload != "missing" {
			s.Data[secrets.HtpasswdFileKey] = tag
		}
	case "ca":
		s.Type = secrets.SecretTypeCA
		s.Data[secrets.CAKey] = verifPair(string(tag)).cert
		s.Data[CACrlKey] = append([]byte("crl of "), tag...)
		switch payload {
		case "nonpem":
			s.Data[secrets.CAKey] = tag
		case "missing":
			delete(s.Data, secrets.CAKey)
		}
	case "oidc":
		s.Type = secrets.SecretTypeOIDC
		if payload != "missing" {
			s.Data[secrets.ClientSecretKey] = []byte("secret" + strconv.Itoa(ver))
		}
	case "api":
		s.Type = secrets.SecretTypeAPIKey
		s.Data["client1"] = []byte("k1-" + strconv.Itoa(ver))
		s.Data["client2"] = []byte("k2-" + strconv.Itoa(ver))
		if payload == "dup" {
			s.Data["client2"] = s.Data["client1"]
		}
	default:
		s.Type = api_v1.SecretTypeOpaque
		s.Data["x"] = tag
	}
	return s
}

// VerifSecrets runs a history over the real LocalSecretStore + Configurator + LocalManager.
// ops: a|ns|name|typ|payload|ver[|uid] (add/update)   d|ns/name (delete)   g|ns/name (lookup by a resource)
func VerifSecrets(kv map[string]string) string {
	root, err := os.MkdirTemp("", "verif-c11-")
	if err != nil {
		return "tmp-error"
	}
	defer os.RemoveAll(root)
	cnf, _, err := VerifNewConfigurator(root, true)
	if err != nil {
		return "setup-error"
	}
	store := secrets.NewLocalSecretStore(cnf)
	known := map[string]string{} // sha of content -> "ns/name@ver[:part]"
	note := func(b []byte, label string) { h := sha256.Sum256(b); known[hex.EncodeToString(h[:])] = label }
	var out []string
	for _, op := range strings.Split(kv["ops"], ";") {
		f := strings.Split(op, "|")
		res := "-"
		switch f[0] {
		case "a":
			ver, _ := strconv.Atoi(f[5])
			s := verifSecret(f[1], f[2], f[3], f[4], ver)
			if len(f) > 6 {
				s.UID = k8stypes.UID(f[6])
			}
			label := fmt.Sprintf("%s/%s@%d", f[1], f[2], ver)
			switch f[3] {
			case "tls":
				note(GenerateCertAndKeyFileContent(s), label)
			case "jwk":
				note(s.Data[secrets.JWTKeyKey], label)
			case "htp":
				note(s.Data[secrets.HtpasswdFileKey], label)
			case "ca":
				crt, crl := GenerateCAFileContent(s)
				note(crt, label+":crt")
				note(crl, label+":crl")
			}
			store.AddOrUpdateSecret(s)
			if store.GetSecretReferenceMap()[f[1]+"/"+f[2]].Error != nil {
				res = "invalid"
			} else {
				res = "valid"
			}
		case "d":
			store.DeleteSecret(f[1])
		case "g":
			ref := store.GetSecret(f[1])
			p := "nopath"
			if ref.Path != "" {
				p = "path"
			}
			e := "ok"
			if ref.Error != nil {
				e = "error"
			}
			res = p + "+" + e
		}
		es, _ := os.ReadDir(filepath.Join(root, "secrets"))
		var files []string
		for _, e := range es {
			b, _ := os.ReadFile(filepath.Join(root, "secrets", e.Name()))
			h := sha256.Sum256(b)
			label, ok := known[hex.EncodeToString(h[:])]
			if !ok {
				label = "?"
			}
			info, _ := e.Info()
			files = append(files, fmt.Sprintf("%s=%s!%o", e.Name(), label, info.Mode().Perm()))
		}
		sort.Strings(files)
		out = append(out, res+"#"+strings.Join(files, ","))
	}
	return strings.Join(out, ";;")
}
