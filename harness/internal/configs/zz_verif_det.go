//go:build verif

package configs

import (
	"fmt"
	"sort"
	"strconv"
	"strings"

	"github.com/nginx/kubernetes-ingress/internal/k8s/secrets"
	conf_v1 "github.com/nginx/kubernetes-ingress/pkg/apis/configuration/v1"
	api_v1 "k8s.io/api/core/v1"
	networking "k8s.io/api/networking/v1"
	meta_v1 "k8s.io/apimachinery/pkg/apis/meta/v1"
)

// verifDetRot rotates every endpoint list: endpoint sets reach the generator as slices collected from maps, in any order.
var verifDetRot int

// verifDetAlone >= 0: the batch-mixed fixture yields only that one resource (rendered alone)
var verifDetAlone = -1

// verifDetDup: every endpoint list names one address twice (two EndpointSlice entries can resolve to the same ip:port)
var verifDetDup bool

func verifDetEndpoints(n int) []string {
	var out []string
	for i := 0; i < n; i++ {
		out = append(out, fmt.Sprintf("10.3.0.%d:80", (i+verifDetRot)%n+1))
	}
	if verifDetDup && n >= 2 {
		// always the same address (the multiset must not depend on the rotation); where it lands in the list does
		dup := "10.3.0.2:80"
		at := verifDetRot % (len(out) + 1)
		out = append(out[:at], append([]string{dup}, out[at:]...)...)
	}
	return out
}

func verifDetPolicy(name string, spec conf_v1.PolicySpec) *conf_v1.Policy {
	return &conf_v1.Policy{ObjectMeta: meta_v1.ObjectMeta{Namespace: "d", Name: name}, Spec: spec}
}

// verifDetFixture builds the extended resources of a fixture; n is the size of each unordered collection in it.
func verifDetFixture(fx string, n int, plus bool) ExtendedResources {
	var r ExtendedResources
	switch fx {
	case "apikey-clients", "apikey-two-policies":
		ex := verifVsEx("d", "v1", 1)
		ex.Endpoints["d/svc:80"] = verifDetEndpoints(n)
		data := map[string][]byte{}
		for i := 0; i < n; i++ {
			// client names that differ only in case, in a separator or in length: an order that identifies two of them
			// (case folding, trimming) would leave their relative position to the map iteration
			stem := []string{"client", "Client", "CLIENT", "client-", "client_"}[i%5]
			data[stem+strconv.Itoa(i/5)] = []byte("key" + strconv.Itoa(i))
		}
		ex.Policies = map[string]*conf_v1.Policy{"d/p1": verifDetPolicy("p1", conf_v1.PolicySpec{APIKey: &conf_v1.APIKey{
			SuppliedIn: &conf_v1.SuppliedIn{Header: []string{"X-Key"}}, ClientSecret: "ak1"}})}
		ex.SecretRefs = map[string]*secrets.SecretReference{"d/ak1": {Secret: &api_v1.Secret{Type: secrets.SecretTypeAPIKey, Data: data}, Path: "/etc/nginx/secrets/d-ak1"}}
		ex.VirtualServer.Spec.Policies = []conf_v1.PolicyReference{{Name: "p1"}}
		if fx == "apikey-two-policies" {
			ex.Policies["d/p2"] = verifDetPolicy("p2", conf_v1.PolicySpec{APIKey: &conf_v1.APIKey{
				SuppliedIn: &conf_v1.SuppliedIn{Query: []string{"k"}}, ClientSecret: "ak2"}})
			ex.SecretRefs["d/ak2"] = &secrets.SecretReference{Secret: &api_v1.Secret{Type: secrets.SecretTypeAPIKey, Data: map[string][]byte{"only": []byte("one")}}, Path: "/etc/nginx/secrets/d-ak2"}
			ex.VirtualServer.Spec.Routes = append(ex.VirtualServer.Spec.Routes, conf_v1.Route{Path: "/r2", Action: &conf_v1.Action{Pass: "u"}, Policies: []conf_v1.PolicyReference{{Name: "p2"}}})
			for i := 3; i < 3+n; i++ {
				pn := "p" + strconv.Itoa(i)
				ex.Policies["d/"+pn] = verifDetPolicy(pn, conf_v1.PolicySpec{APIKey: &conf_v1.APIKey{SuppliedIn: &conf_v1.SuppliedIn{Query: []string{"k" + strconv.Itoa(i)}}, ClientSecret: "ak2"}})
				ex.VirtualServer.Spec.Routes = append(ex.VirtualServer.Spec.Routes, conf_v1.Route{Path: "/r" + strconv.Itoa(i), Action: &conf_v1.Action{Pass: "u"}, Policies: []conf_v1.PolicyReference{{Name: pn}}})
			}
		}
		r.VirtualServerExes = []*VirtualServerEx{ex}
	case "rl-groups":
		ex := verifVsEx("d", "v1", 1)
		ex.Policies = map[string]*conf_v1.Policy{}
		ex.Policies["d/jwt"] = verifDetPolicy("jwt", conf_v1.PolicySpec{JWTAuth: &conf_v1.JWTAuth{Realm: "r", Secret: "jwk"}})
		ex.SecretRefs = map[string]*secrets.SecretReference{"d/jwk": {Secret: &api_v1.Secret{Type: secrets.SecretTypeJWK}, Path: "/etc/nginx/secrets/d-jwk"}}
		ex.VirtualServer.Spec.Policies = []conf_v1.PolicyReference{{Name: "jwt"}}
		for g := 0; g < n; g++ {
			for t := 0; t < 2; t++ {
				pn := fmt.Sprintf("rl-%d-%d", g, t)
				ex.Policies["d/"+pn] = verifDetPolicy(pn, conf_v1.PolicySpec{RateLimit: &conf_v1.RateLimit{Rate: strconv.Itoa(10+t) + "r/s", ZoneSize: "10M",
					Key: fmt.Sprintf("${jwt_claim_g%d}", g), Condition: &conf_v1.RateLimitCondition{JWT: &conf_v1.JWTCondition{Claim: "tier" + strconv.Itoa(g), Match: "m" + strconv.Itoa(t)}, Default: t == 0}}})
				ex.VirtualServer.Spec.Policies = append(ex.VirtualServer.Spec.Policies, conf_v1.PolicyReference{Name: pn})
			}
		}
		r.VirtualServerExes = []*VirtualServerEx{ex}
	case "vs-rich":
		ex := verifVsEx("d", "v1", 1)
		ex.VirtualServer.Spec.Upstreams = nil
		ex.VirtualServer.Spec.Routes = nil
		ex.Endpoints = map[string][]string{}
		for i := 0; i < n; i++ {
			un := "u" + strconv.Itoa((i*5)%n)
			up := conf_v1.Upstream{Name: un, Service: "svc" + un, Port: 80}
			if i%2 == 1 {
				up.Subselector = map[string]string{"tier": "t" + strconv.Itoa(i), "app": "a", "zone": "z", "rel": "r", "v": "1"}
			}
			if i%3 == 0 && len(up.Subselector) == 0 {
				// a backup Service with several endpoints (nothing enforces ExternalName): their order is the controller's map order
				bp := uint16(80)
				up.Backup, up.BackupPort = "bak"+un, &bp
				ex.Endpoints[GenerateEndpointsKey("d", up.Backup, nil, bp)] = verifDetEndpoints(n)
			}
			ex.VirtualServer.Spec.Upstreams = append(ex.VirtualServer.Spec.Upstreams, up)
			ex.Endpoints[GenerateEndpointsKey("d", up.Service, up.Subselector, up.Port)] = verifDetEndpoints(n)
			ex.VirtualServer.Spec.Routes = append(ex.VirtualServer.Spec.Routes, conf_v1.Route{Path: "/" + un, Action: &conf_v1.Action{Proxy: &conf_v1.ActionProxy{Upstream: un,
				RequestHeaders:  &conf_v1.ProxyRequestHeaders{Set: []conf_v1.Header{{Name: "X-A", Value: "1"}, {Name: "X-B", Value: "2"}}},
				ResponseHeaders: &conf_v1.ProxyResponseHeaders{Hide: []string{"h1", "h2"}, Add: []conf_v1.AddHeader{{Header: conf_v1.Header{Name: "X-C", Value: "3"}}}}}},
				ErrorPages: []conf_v1.ErrorPage{{Codes: []int{502, 503}, Return: &conf_v1.ErrorPageReturn{ActionReturn: conf_v1.ActionReturn{Code: 200, Body: "x"}}}}})
		}
		ex.VirtualServer.Spec.Routes = append(ex.VirtualServer.Spec.Routes, conf_v1.Route{Path: "/split", Splits: []conf_v1.Split{
			{Weight: 30, Action: &conf_v1.Action{Pass: "u0"}}, {Weight: 70, Action: &conf_v1.Action{Pass: "u" + strconv.Itoa(n-1)}}}})
		ex.VirtualServer.Spec.Routes = append(ex.VirtualServer.Spec.Routes, conf_v1.Route{Path: "/match", Matches: []conf_v1.Match{
			{Conditions: []conf_v1.Condition{{Header: "x-v", Value: "a"}, {Cookie: "c", Value: "b"}}, Action: &conf_v1.Action{Pass: "u0"}}}, Action: &conf_v1.Action{Pass: "u" + strconv.Itoa(n-1)}})
		r.VirtualServerExes = []*VirtualServerEx{ex}
	case "ingress-rich":
		pt := networking.PathTypePrefix
		ing := &networking.Ingress{ObjectMeta: meta_v1.ObjectMeta{Namespace: "d", Name: "i1", Annotations: map[string]string{
			"nginx.org/proxy-hide-headers": "h1,h2,h3", "nginx.org/proxy-pass-headers": "p1,p2", "nginx.org/proxy-set-headers": "X-A: 1,X-B: 2,X-C",
			"nginx.org/rewrites": "serviceName=svc0 rewrite=/a;serviceName=svc1 rewrite=/b", "nginx.org/ssl-services": "svc0,svc1", "nginx.org/websocket-services": "svc1,svc2",
			"nginx.org/sticky-cookie-services": "serviceName=svc0 srv_id expires=1h", "nginx.org/listen-ports": "80,8080", "nginx.org/location-snippets": "add_header X 1;\nadd_header Y 2;"}}}
		ex := &IngressEx{Ingress: ing, Endpoints: map[string][]string{}, ValidHosts: map[string]bool{}, SecretRefs: map[string]*secrets.SecretReference{}, ExternalNameSvcs: map[string]bool{}}
		for h := 0; h < n; h++ {
			host := fmt.Sprintf("h%d.ex", (h*3)%n)
			rule := networking.IngressRule{Host: host, IngressRuleValue: networking.IngressRuleValue{HTTP: &networking.HTTPIngressRuleValue{}}}
			for p := 0; p < n; p++ {
				svc := "svc" + strconv.Itoa((p*2)%n)
				rule.HTTP.Paths = append(rule.HTTP.Paths, networking.HTTPIngressPath{Path: "/p" + strconv.Itoa(p), PathType: &pt,
					Backend: networking.IngressBackend{Service: &networking.IngressServiceBackend{Name: svc, Port: networking.ServiceBackendPort{Number: 80}}}})
				ex.Endpoints[svc+"80"] = verifDetEndpoints(n)
			}
			ing.Spec.Rules = append(ing.Spec.Rules, rule)
			ex.ValidHosts[host] = true
		}
		r.IngressExes = []*IngressEx{ex}
	case "mergeable":
		m := verifRelMergeable("m1", "a+b", 0)
		for i := 0; i < n; i++ {
			mn := verifIngEx("d", "min"+strconv.Itoa((i*3)%n), 1)
			mn.Ingress.Annotations = map[string]string{"nginx.org/mergeable-ingress-type": "minion", "nginx.org/proxy-hide-headers": "a,b"}
			if plus {
				mn.Ingress.Annotations["nginx.com/jwt-key"] = "jwk" + strconv.Itoa(i)
				mn.Ingress.Annotations["nginx.com/jwt-realm"] = "r"
				mn.Ingress.Annotations["nginx.com/jwt-login-url"] = "https://login.example.com/" + strconv.Itoa(i)
				mn.SecretRefs = map[string]*secrets.SecretReference{"jwk" + strconv.Itoa(i): {Secret: &api_v1.Secret{Type: secrets.SecretTypeJWK}, Path: "/etc/nginx/secrets/d-jwk" + strconv.Itoa(i)}}
			}
			mn.Ingress.Spec.Rules[0].Host = m.Master.Ingress.Spec.Rules[0].Host
			mn.Ingress.Spec.Rules[0].HTTP.Paths[0].Path = "/m" + strconv.Itoa(i)
			mn.ValidHosts = map[string]bool{mn.Ingress.Spec.Rules[0].Host: true}
			mn.ValidMinionPaths = map[string]bool{"/m" + strconv.Itoa(i): true}
			mn.Endpoints = map[string][]string{"svc80": verifDetEndpoints(n)}
			m.Minions = append(m.Minions, mn)
		}
		r.MergeableIngresses = []*MergeableIngresses{m}
	case "batch-mixed":
		// several VirtualServers with different policies in ONE batch, in an order that rotates from rendering to rendering: what
		// is generated for one of them must not depend on which others were generated before it in the same batch, nor on
		// whether it is processed alone
		mk := func(name string, pols map[string]*conf_v1.Policy, refs []conf_v1.PolicyReference, secs map[string]*secrets.SecretReference) *VirtualServerEx {
			ex := verifVsEx("d", name, 1)
			ex.VirtualServer.Spec.Host = name + ".ex"
			ex.Endpoints["d/svc:80"] = verifDetEndpoints(2)
			ex.Policies = pols
			ex.SecretRefs = secs
			ex.VirtualServer.Spec.Policies = refs
			return ex
		}
		var all []*VirtualServerEx
		if plus {
			all = append(all, mk("b-oidc", map[string]*conf_v1.Policy{"d/oidc": verifDetPolicy("oidc", conf_v1.PolicySpec{OIDC: &conf_v1.OIDC{
				AuthEndpoint: "https://idp.ex/auth", TokenEndpoint: "https://idp.ex/token", JWKSURI: "https://idp.ex/jwks", ClientID: "c", ClientSecret: "oidc-sec", Scope: "openid"}})},
				[]conf_v1.PolicyReference{{Name: "oidc"}},
				map[string]*secrets.SecretReference{"d/oidc-sec": {Secret: &api_v1.Secret{Type: secrets.SecretTypeOIDC, Data: map[string][]byte{"client-secret": []byte("s3cret")}}}}))
			all = append(all, mk("b-jwt", map[string]*conf_v1.Policy{"d/jwt": verifDetPolicy("jwt", conf_v1.PolicySpec{JWTAuth: &conf_v1.JWTAuth{Realm: "r", Secret: "jwk"}})},
				[]conf_v1.PolicyReference{{Name: "jwt"}},
				map[string]*secrets.SecretReference{"d/jwk": {Secret: &api_v1.Secret{Type: secrets.SecretTypeJWK}, Path: "/etc/nginx/secrets/d-jwk"}}))
		}
		all = append(all, mk("b-plain", nil, nil, nil))
		all = append(all, mk("b-rl", map[string]*conf_v1.Policy{"d/rl": verifDetPolicy("rl", conf_v1.PolicySpec{RateLimit: &conf_v1.RateLimit{Rate: "9r/s", ZoneSize: "10M", Key: "${binary_remote_addr}"}})},
			[]conf_v1.PolicyReference{{Name: "rl"}}, nil))
		all = append(all, mk("b-key", map[string]*conf_v1.Policy{"d/ak": verifDetPolicy("ak", conf_v1.PolicySpec{APIKey: &conf_v1.APIKey{
			SuppliedIn: &conf_v1.SuppliedIn{Header: []string{"X-Key"}}, ClientSecret: "aks"}})}, []conf_v1.PolicyReference{{Name: "ak"}},
			map[string]*secrets.SecretReference{"d/aks": {Secret: &api_v1.Secret{Type: secrets.SecretTypeAPIKey, Data: map[string][]byte{"c1": []byte("k1")}}, Path: "/etc/nginx/secrets/d-aks"}}))
		all = append(all, mk("b-acl", map[string]*conf_v1.Policy{"d/acl": verifDetPolicy("acl", conf_v1.PolicySpec{AccessControl: &conf_v1.AccessControl{Allow: []string{"10.0.0.0/8"}}})},
			[]conf_v1.PolicyReference{{Name: "acl"}}, nil))
		k := verifDetRot % len(all)
		r.VirtualServerExes = append(append([]*VirtualServerEx{}, all[k:]...), all[:k]...)
		if n > 0 && n <= len(all) && verifDetAlone >= 0 {
			r.VirtualServerExes = []*VirtualServerEx{all[verifDetAlone%len(all)]}
		}
	case "ts-rich":
		ex := verifTsEx("d", "t1", 1, "")
		ex.TransportServer.Spec.Upstreams = nil
		ex.Endpoints = map[string][]string{}
		for i := 0; i < n; i++ {
			un := "u" + strconv.Itoa((i*5)%n)
			tu := conf_v1.TransportServerUpstream{Name: un, Service: "svc" + un, Port: 80}
			if i%3 == 0 {
				bp := uint16(80)
				tu.Backup, tu.BackupPort = "bak"+un, &bp
				ex.Endpoints["d/bak"+un+":80"] = verifDetEndpoints(n)
			}
			ex.TransportServer.Spec.Upstreams = append(ex.TransportServer.Spec.Upstreams, tu)
			ex.Endpoints["d/svc"+un+":80"] = verifDetEndpoints(n)
		}
		ex.TransportServer.Spec.Action = &conf_v1.TransportServerAction{Pass: "u0"}
		r.TransportServerExes = []*TransportServerEx{ex}
	}
	return r
}

// VerifDet renders one fixture `reps` times, each time with a fresh Configurator over a fresh recording manager, and reports how
// many distinct byte contents each file took, and whether a second identical call on the same Configurator reported a change.
// kv: fx, n, reps, plus
func VerifDet(kv map[string]string) string {
	plus := kv["plus"] == "1"
	n, _ := strconv.Atoi(kv["n"])
	reps, _ := strconv.Atoi(kv["reps"])
	seen := map[string]map[string]bool{}
	changed2 := 0
	verifDetDup = kv["dup"] == "1"
	defer func() { verifDetDup = false }()
	for i := 0; i < reps; i++ {
		verifDetRot = i
		cnf, rm, err := VerifNewRecConfigurator(plus, false, true)
		if err != nil {
			return "setup-error"
		}
		cnf.EnableReloads()
		first := verifDetFixture(kv["fx"], n, plus)
		if _, err := cnf.AddOrUpdateResources(first, false); err != nil {
			return "render-error:" + strings.ReplaceAll(err.Error(), " ", "_")
		}
		for f, c := range rm.Files {
			if seen[f] == nil {
				seen[f] = map[string]bool{}
			}
			seen[f][c] = true
		}
		rm.VerifTake()
		// the very same extended resources once more (the Configurator keeps them and renders them again on ConfigMap,
		// GlobalConfiguration and endpoints updates): a generator that rewrites its input shows here
		if _, err := cnf.AddOrUpdateResources(first, false); err != nil {
			return "render-error"
		}
		for _, e := range rm.VerifTake() {
			if strings.HasPrefix(e, "W|") && strings.HasSuffix(e, "|1") {
				changed2++
			}
		}
		// ... and freshly built equal ones
		if _, err := cnf.AddOrUpdateResources(verifDetFixture(kv["fx"], n, plus), false); err != nil {
			return "render-error"
		}
		for _, e := range rm.VerifTake() {
			if strings.HasPrefix(e, "W|") && strings.HasSuffix(e, "|1") {
				changed2++
			}
		}
	}
	if kv["fx"] == "batch-mixed" {
		// each resource of the batch once more on its own, through the single-resource operation
		for a := 0; a < 8; a++ {
			verifDetRot, verifDetAlone = 0, a
			one := verifDetFixture(kv["fx"], n, plus)
			verifDetAlone = -1
			cnf, rm, err := VerifNewRecConfigurator(plus, false, true)
			if err != nil {
				return "setup-error"
			}
			cnf.EnableReloads()
			for _, ex := range one.VirtualServerExes {
				if _, err := cnf.AddOrUpdateVirtualServer(ex); err != nil {
					return "render-error"
				}
			}
			for f, c := range rm.Files {
				if seen[f] == nil {
					seen[f] = map[string]bool{}
				}
				seen[f][c] = true
			}
		}
	}
	var out []string
	files := 0
	for f, cs := range seen {
		files++
		if len(cs) > 1 {
			out = append(out, f+":"+strconv.Itoa(len(cs)))
		}
	}
	sort.Strings(out)
	return fmt.Sprintf("files=%d#unstable=%s#changed2=%d", files, strings.Join(out, ","), changed2)
}
