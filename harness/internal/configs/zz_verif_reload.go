//go:build verif

package configs

import (
	"context"
	"fmt"
	"path/filepath"
	"strconv"
	"strings"

	"github.com/nginx/kubernetes-ingress/internal/configs/version1"
	"github.com/nginx/kubernetes-ingress/internal/configs/version2"
	nl "github.com/nginx/kubernetes-ingress/internal/logger"
	"github.com/nginx/kubernetes-ingress/internal/nginx"
	conf_v1 "github.com/nginx/kubernetes-ingress/pkg/apis/configuration/v1"
	api_v1 "k8s.io/api/core/v1"
	meta_v1 "k8s.io/apimachinery/pkg/apis/meta/v1"
)

// VerifPEMPair returns a self-signed certificate and key, stable per label within the process.
func VerifPEMPair(label string) (cert, key []byte) {
	p := verifPair(label)
	return p.cert, p.key
}

// VerifReloadsEnabled exposes the reload gate.
func (cnf *Configurator) VerifReloadsEnabled() bool { return cnf.isReloadsEnabled }

// VerifNewRecConfigurator builds a real Configurator (real templates) over the recording manager.
func VerifNewRecConfigurator(isPlus, dynWeights, dynSSL bool) (*Configurator, *nginx.VerifRecManager, error) {
	base := filepath.Join(verifRepo(), "internal", "configs")
	main, ing := "version1/nginx.tmpl", "version1/nginx.ingress.tmpl"
	vs, ts := "version2/nginx.virtualserver.tmpl", "version2/nginx.transportserver.tmpl"
	if isPlus {
		main, ing = "version1/nginx-plus.tmpl", "version1/nginx-plus.ingress.tmpl"
		vs, ts = "version2/nginx-plus.virtualserver.tmpl", "version2/nginx-plus.transportserver.tmpl"
	}
	te, err := version1.NewTemplateExecutor(filepath.Join(base, main), filepath.Join(base, ing))
	if err != nil {
		return nil, nil, err
	}
	te2, err := version2.NewTemplateExecutor(filepath.Join(base, vs), filepath.Join(base, ts))
	if err != nil {
		return nil, nil, err
	}
	ctx := nl.ContextWithLogger(context.Background(), verifLog)
	rm := nginx.NewVerifRecManager(isPlus)
	cnf := NewConfigurator(ConfiguratorParams{
		NginxManager: rm,
		StaticCfgParams: &StaticConfigParams{NginxStatus: true, NginxStatusAllowCIDRs: []string{"127.0.0.1"}, NginxStatusPort: 8080,
			TLSPassthrough: true, NginxVersion: rm.Version(), DynamicWeightChangesReload: dynWeights, DynamicSSLReload: dynSSL, StaticSSLPath: rm.GetSecretsDir(),
			AppProtectBundlePath: verifBundleDir()},
		Config:                    NewDefaultConfigParams(ctx, isPlus),
		MGMTCfgParams:             NewDefaultMGMTConfigParams(ctx),
		TemplateExecutor:          te,
		TemplateExecutorV2:        te2,
		IsPlus:                    isPlus,
		IsDynamicSSLReloadEnabled: dynSSL,
		NginxVersion:              rm.Version(),
	})
	return cnf, rm, nil
}

func verifEps(tok string) []string {
	if tok == "_" || tok == "" {
		return []string{}
	}
	var out []string
	for _, c := range strings.Split(tok, "+") {
		out = append(out, fmt.Sprintf("10.1.0.%d:80", int(c[0]-'a')+1))
	}
	return out
}

func verifRelIng(id, eps string, ver int) *IngressEx {
	uid, _ := strconv.Atoi(id[1:])
	ex := verifIngEx("d", id, uid)
	ex.Ingress.Spec.Rules[0].Host = fmt.Sprintf("h%d-v%d.ex", uid, ver)
	ex.ValidHosts = map[string]bool{ex.Ingress.Spec.Rules[0].Host: true}
	ex.Endpoints = map[string][]string{"svc80": verifEps(eps)}
	return ex
}

func verifRelMergeable(id, eps string, ver int) *MergeableIngresses {
	uid, _ := strconv.Atoi(id[1:])
	host := fmt.Sprintf("m%d-v%d.ex", uid, ver)
	master := verifIngEx("d", id, uid)
	master.Ingress.Annotations = map[string]string{"nginx.org/mergeable-ingress-type": "master"}
	master.Ingress.Spec.Rules[0].Host = host
	master.Ingress.Spec.Rules[0].HTTP = nil
	master.ValidHosts = map[string]bool{host: true}
	master.Endpoints = map[string][]string{}
	minion := verifIngEx("d", id+"-min", uid)
	minion.Ingress.Annotations = map[string]string{"nginx.org/mergeable-ingress-type": "minion"}
	minion.Ingress.Spec.Rules[0].Host = host
	minion.ValidHosts = map[string]bool{host: true}
	minion.ValidMinionPaths = map[string]bool{"/": true}
	minion.Endpoints = map[string][]string{"svc80": verifEps(eps)}
	return &MergeableIngresses{Master: master, Minions: []*IngressEx{minion}}
}

// verifRelVs: v1.. one upstream; ids starting with "w" carry a two-way split (weight updates when enabled).
func verifRelVs(id, eps string, ver int) *VirtualServerEx {
	uid, _ := strconv.Atoi(id[1:])
	ex := verifVsEx("d", id, 100+uid)
	ex.VirtualServer.Spec.Host = fmt.Sprintf("v%d-v%d.ex", uid, ver)
	ex.Endpoints = map[string][]string{"d/svc:80": verifEps(eps)}
	if id[0] == 'w' {
		ex.VirtualServer.Spec.Upstreams = append(ex.VirtualServer.Spec.Upstreams, conf_v1.Upstream{Name: "u2", Service: "svc2", Port: 80})
		ex.Endpoints["d/svc2:80"] = verifEps(eps)
		ex.VirtualServer.Spec.Routes = []conf_v1.Route{{Path: "/", Splits: []conf_v1.Split{
			{Weight: 50 + ver%2, Action: &conf_v1.Action{Pass: "u"}}, {Weight: 50 - ver%2, Action: &conf_v1.Action{Pass: "u2"}}}}}
	}
	return ex
}

func verifRelTs(id, eps string, ver int) *TransportServerEx {
	uid, _ := strconv.Atoi(id[1:])
	host := ""
	if id[0] == 'p' {
		host = fmt.Sprintf("p%d-v%d.ex", uid, ver)
	}
	ex := verifTsEx("d", id, 200+uid, host)
	if host == "" {
		ex.ListenerPort = 5000 + uid + 10*ver
	}
	ex.Endpoints = map[string][]string{"d/svc:80": verifEps(eps)}
	return ex
}

func verifIDs(s string) []string {
	if s == "_" || s == "" {
		return nil
	}
	return strings.Split(s, "+")
}

func verifIdx(s string) map[int]bool {
	out := map[int]bool{}
	for _, x := range verifIDs(s) {
		n, _ := strconv.Atoi(x)
		out[n] = true
	}
	return out
}

// VerifReload runs a sequence of Configurator operations over the recording manager and prints, per operation,
// the events at the nginx.Manager boundary followed by RET|ok|err|<static secrets>.
//
// kv: plus=0|1 dw=0|1 (dynamic weight changes) dssl=0|1 rf=<reload call indices that fail> af=<API call indices that fail>
// ops = op;op;... with
//
//	en / dis                       EnableReloads / DisableReloads
//	ai|id|eps|ver  am|id|eps|ver   AddOrUpdateIngress / AddOrUpdateMergeableIngress
//	av|id|eps|ver  avs|ids|eps|ver AddOrUpdateVirtualServer / AddOrUpdateVirtualServers
//	at|id|eps|ver                  AddOrUpdateTransportServer (id p* = TLS passthrough)
//	di|id|skip  dv|id|skip  dt|id  Delete*
//	ei|ids|eps  em|ids|eps  ev|ids|eps  et|ids|eps   UpdateEndpoints*
//	ar|ids|eps|ver|riu             AddOrUpdateResources (ids of any kind; riu = reloadIfUnchanged)
//	uc|ids|eps|ver|wc              UpdateConfig(resources) with worker-connections = wc
//	uv|ids|delids|eps|ver  ut|ids|delids|eps|ver     UpdateVirtualServers / UpdateTransportServers
//	bv|ids  bi|ids                 BatchDelete*
//	br|flag                        ReloadForBatchUpdates
//	sec|name|ver  dsec|name        AddOrUpdateSecret / DeleteSecret
func VerifReload(kv map[string]string) string {
	cnf, rm, err := VerifNewRecConfigurator(kv["plus"] == "1", kv["dw"] == "1", kv["dssl"] == "1")
	if err != nil {
		return "setup-error:" + strings.ReplaceAll(err.Error(), " ", "_")
	}
	rm.FailReload, rm.FailAPI = verifIdx(kv["rf"]), verifIdx(kv["af"])
	var out []string
	for _, op := range strings.Split(kv["ops"], ";") {
		f := strings.Split(op, "|")
		for len(f) < 6 {
			f = append(f, "")
		}
		res := "ok"
		chk := func(e error) {
			if e != nil {
				res = "err"
			}
		}
		chks := func(es []error) {
			if len(es) > 0 {
				res = "err"
			}
		}
		ver := func(s string) int { n, _ := strconv.Atoi(s); return n }
		resources := func(ids []string, eps string, v int) ExtendedResources {
			var r ExtendedResources
			for _, id := range ids {
				switch id[0] {
				case 'i':
					r.IngressExes = append(r.IngressExes, verifRelIng(id, eps, v))
				case 'm':
					r.MergeableIngresses = append(r.MergeableIngresses, verifRelMergeable(id, eps, v))
				case 'v', 'w':
					r.VirtualServerExes = append(r.VirtualServerExes, verifRelVs(id, eps, v))
				case 't', 'p':
					r.TransportServerExes = append(r.TransportServerExes, verifRelTs(id, eps, v))
				}
			}
			return r
		}
		switch f[0] {
		case "en":
			cnf.EnableReloads()
		case "dis":
			cnf.DisableReloads()
		case "ai":
			_, e := cnf.AddOrUpdateIngress(verifRelIng(f[1], f[2], ver(f[3])))
			chk(e)
		case "am":
			_, e := cnf.AddOrUpdateMergeableIngress(verifRelMergeable(f[1], f[2], ver(f[3])))
			chk(e)
		case "av":
			_, e := cnf.AddOrUpdateVirtualServer(verifRelVs(f[1], f[2], ver(f[3])))
			chk(e)
		case "avs":
			_, e := cnf.AddOrUpdateVirtualServers(resources(verifIDs(f[1]), f[2], ver(f[3])).VirtualServerExes)
			chk(e)
		case "at":
			_, e := cnf.AddOrUpdateTransportServer(verifRelTs(f[1], f[2], ver(f[3])))
			chk(e)
		case "di":
			chk(cnf.DeleteIngress("d/"+f[1], f[2] == "1"))
		case "dv":
			chk(cnf.DeleteVirtualServer("d/"+f[1], f[2] == "1"))
		case "dt":
			chk(cnf.DeleteTransportServer("d/" + f[1]))
		case "ei":
			chk(cnf.UpdateEndpoints(resources(verifIDs(f[1]), f[2], ver(f[3])).IngressExes))
		case "em":
			chk(cnf.UpdateEndpointsMergeableIngress(resources(verifIDs(f[1]), f[2], ver(f[3])).MergeableIngresses))
		case "ev":
			chk(cnf.UpdateEndpointsForVirtualServers(resources(verifIDs(f[1]), f[2], ver(f[3])).VirtualServerExes))
		case "et":
			chk(cnf.UpdateEndpointsForTransportServers(resources(verifIDs(f[1]), f[2], ver(f[3])).TransportServerExes))
		case "ar":
			_, e := cnf.AddOrUpdateResources(resources(verifIDs(f[1]), f[2], ver(f[3])), f[4] == "1")
			chk(e)
		case "uc":
			cnf.CfgParams.MainWorkerConnections = f[4]
			_, e := cnf.UpdateConfig(resources(verifIDs(f[1]), f[2], ver(f[3])))
			chk(e)
		case "uv":
			var keys []string
			for _, id := range verifIDs(f[2]) {
				keys = append(keys, "d/"+id)
			}
			chks(cnf.UpdateVirtualServers(resources(verifIDs(f[1]), f[3], ver(f[4])).VirtualServerExes, keys))
		case "ut":
			var keys []string
			for _, id := range verifIDs(f[2]) {
				keys = append(keys, "d/"+id)
			}
			chks(cnf.UpdateTransportServers(resources(verifIDs(f[1]), f[3], ver(f[4])).TransportServerExes, keys))
		case "bv":
			var keys []string
			for _, id := range verifIDs(f[1]) {
				keys = append(keys, "d/"+id)
			}
			chks(cnf.BatchDeleteVirtualServers(keys))
		case "bi":
			var keys []string
			for _, id := range verifIDs(f[1]) {
				keys = append(keys, "d/"+id)
			}
			chks(cnf.BatchDeleteIngresses(keys))
		case "br":
			chk(cnf.ReloadForBatchUpdates(f[1] == "1"))
		case "sec":
			s := &api_v1.Secret{ObjectMeta: meta_v1.ObjectMeta{Namespace: "d", Name: f[1]}, Type: "nginx.org/htpasswd",
				Data: map[string][]byte{"htpasswd": []byte("user:" + f[2])}}
			cnf.AddOrUpdateSecret(s)
		case "dsec":
			cnf.DeleteSecret("d/" + f[1])
		default:
			res = "bad-op"
		}
		en := "0"
		if cnf.VerifReloadsEnabled() {
			en = "1"
		}
		evs := append(rm.VerifTake(), "RET|"+res+"|"+en+"|"+strings.Join(rm.VerifStaticSecrets(), "+"))
		out = append(out, strings.Join(evs, ","))
	}
	return strings.Join(out, ";;")
}
