//go:build verif

package configs

import (
	"encoding/hex"
	"strings"

	conf_v1 "github.com/nginx/kubernetes-ingress/pkg/apis/configuration/v1"
	networking "k8s.io/api/networking/v1"
	meta_v1 "k8s.io/apimachinery/pkg/apis/meta/v1"
	"k8s.io/apimachinery/pkg/util/intstr"
)

// VerifName calls the real identifier constructors: f=<function> a=<hex>,<hex>,...
func VerifName(kv map[string]string) string {
	var a []string
	for _, h := range strings.Split(kv["a"], ",") {
		b, _ := hex.DecodeString(h)
		a = append(a, string(b))
	}
	vs := func(ns, name string) *conf_v1.VirtualServer {
		return &conf_v1.VirtualServer{ObjectMeta: meta_v1.ObjectMeta{Namespace: ns, Name: name}}
	}
	switch {
	case kv["f"] == "vsup" && len(a) == 3:
		return NewUpstreamNamerForVirtualServer(vs(a[0], a[1])).GetNameForUpstream(a[2])
	case kv["f"] == "vsrup" && len(a) == 5:
		vsr := &conf_v1.VirtualServerRoute{ObjectMeta: meta_v1.ObjectMeta{Namespace: a[2], Name: a[3]}}
		return NewUpstreamNamerForVirtualServerRoute(vs(a[0], a[1]), vsr).GetNameForUpstream(a[4])
	case kv["f"] == "tsup" && len(a) == 3:
		ts := &conf_v1.TransportServer{ObjectMeta: meta_v1.ObjectMeta{Namespace: a[0], Name: a[1]}}
		return newUpstreamNamerForTransportServer(ts).GetNameForUpstream(a[2])
	case kv["f"] == "ingup" && len(a) == 5:
		ing := &networking.Ingress{ObjectMeta: meta_v1.ObjectMeta{Namespace: a[0], Name: a[1]}}
		be := &networking.IngressBackend{Service: &networking.IngressServiceBackend{Name: a[3], Port: networking.ServiceBackendPort{Name: a[4]}}}
		_ = intstr.FromInt
		return getNameForUpstream(ing, a[2], be)
	case kv["f"] == "safe" && len(a) == 2:
		n := NewVSVariableNamer(vs(a[0], a[1]))
		return n.safeNsName
	}
	return "bad-op"
}
