//go:build verif

package configs

import (
	"errors"
	"fmt"
	"os"
	"path/filepath"
	"regexp"
	"strings"
	"sync"

	"github.com/nginx/kubernetes-ingress/internal/k8s/secrets"
	conf_v1 "github.com/nginx/kubernetes-ingress/pkg/apis/configuration/v1"
	api_v1 "k8s.io/api/core/v1"
	networking "k8s.io/api/networking/v1"
	meta_v1 "k8s.io/apimachinery/pkg/apis/meta/v1"
	"k8s.io/apimachinery/pkg/apis/meta/v1/unstructured"
)

func verifFcSecret(typ api_v1.SecretType, mode string, path string) *secrets.SecretReference {
	switch mode {
	case "secret-missing":
		return &secrets.SecretReference{Error: errors.New("secret doesn't exist or of an unsupported type")}
	case "secret-invalid":
		return &secrets.SecretReference{Secret: &api_v1.Secret{Type: typ}, Error: errors.New("invalid")}
	case "secret-wrongtype":
		wrong := secrets.SecretTypeHtpasswd
		if typ == secrets.SecretTypeHtpasswd {
			wrong = secrets.SecretTypeJWK
		}
		return &secrets.SecretReference{Secret: &api_v1.Secret{Type: wrong, Data: map[string][]byte{}}, Path: path}
	}
	return &secrets.SecretReference{Secret: &api_v1.Secret{Type: typ, Data: map[string][]byte{"client1": []byte("k")}}, Path: path}
}

// verifFcPolicy returns the policy of the kind under test and the dependencies it needs, in the state `mode` asks for.
// mode: ok | policy-missing | secret-missing | secret-invalid | secret-wrongtype | dep2-missing | dep2-wrongtype | ap-missing | aplog-missing | context
func verifFcPolicy(kind, mode string, ex *VirtualServerEx) *conf_v1.Policy {
	p := &conf_v1.Policy{ObjectMeta: meta_v1.ObjectMeta{Namespace: "d", Name: "target"}}
	primary := true
	sec := func(name string, typ api_v1.SecretType, m string) {
		if verifFcStoreHist != "" && primary {
			// the reference comes out of the real secret store after the Secret went through the given history
			primary = false
			ex.SecretRefs["d/"+name] = verifStoreRef(typ, name, verifFcStoreHist)
			return
		}
		primary = false
		ex.SecretRefs["d/"+name] = verifFcSecret(typ, m, "/etc/nginx/secrets/d-"+name)
	}
	first := mode
	if strings.HasPrefix(mode, "dep2-") || strings.HasPrefix(mode, "ap") || mode == "context" || mode == "policy-missing" {
		first = "ok"
	}
	switch kind {
	case "jwt":
		p.Spec.JWTAuth = &conf_v1.JWTAuth{Realm: "r", Secret: "jwk"}
		sec("jwk", secrets.SecretTypeJWK, first)
	case "basic":
		p.Spec.BasicAuth = &conf_v1.BasicAuth{Realm: "r", Secret: "htp"}
		sec("htp", secrets.SecretTypeHtpasswd, first)
	case "imtls":
		p.Spec.IngressMTLS = &conf_v1.IngressMTLS{ClientCertSecret: "ca"}
		sec("ca", secrets.SecretTypeCA, first)
	case "emtls":
		p.Spec.EgressMTLS = &conf_v1.EgressMTLS{TLSSecret: "etls", TrustedCertSecret: "eca", VerifyServer: true}
		sec("etls", api_v1.SecretTypeTLS, first)
		sec("eca", secrets.SecretTypeCA, strings.Replace(mode, "dep2-", "secret-", 1))
		if !strings.HasPrefix(mode, "dep2-") {
			sec("eca", secrets.SecretTypeCA, "ok")
		}
	case "oidc":
		p.Spec.OIDC = &conf_v1.OIDC{AuthEndpoint: "https://idp.ex/auth", TokenEndpoint: "https://idp.ex/token", JWKSURI: "https://idp.ex/jwks", ClientID: "c", ClientSecret: "oidc", Scope: "openid"}
		sec("oidc", secrets.SecretTypeOIDC, first)
	case "apikey":
		p.Spec.APIKey = &conf_v1.APIKey{SuppliedIn: &conf_v1.SuppliedIn{Header: []string{"X-Key"}}, ClientSecret: "ak"}
		sec("ak", secrets.SecretTypeAPIKey, first)
	case "waf":
		// variant: p = App Protect policy, b = App Protect bundle (a file under AppProtectBundlePath); then the security logs:
		// l = log configuration resource, g = log bundle file, o = the deprecated single securityLog field (with a log configuration)
		variant := verifWafVariant
		if variant == "" {
			variant = "pl"
		}
		w := &conf_v1.WAF{Enable: true}
		for i, c := range variant {
			switch c {
			case 'p':
				w.ApPolicy = "d/ap"
				if mode != "ap-missing" {
					ex.ApPolRefs["d/ap"] = &unstructured.Unstructured{Object: map[string]interface{}{"metadata": map[string]interface{}{"namespace": "d", "name": "ap"}}}
				}
			case 'b':
				w.ApBundle = "pol.tgz"
				if mode == "bundle-missing" {
					w.ApBundle = "absent-pol.tgz"
				}
			case 'l':
				name := fmt.Sprintf("d/lc%d", i)
				w.SecurityLogs = append(w.SecurityLogs, &conf_v1.SecurityLog{Enable: true, ApLogConf: name, LogDest: "stderr"})
				if mode != "aplog-missing" {
					ex.LogConfRefs[name] = &unstructured.Unstructured{Object: map[string]interface{}{"metadata": map[string]interface{}{"namespace": "d", "name": name[2:]}}}
				}
			case 'g':
				b := "log.tgz"
				if mode == "logbundle-missing" {
					b = "absent-log.tgz"
				}
				w.SecurityLogs = append(w.SecurityLogs, &conf_v1.SecurityLog{Enable: true, ApLogBundle: b, LogDest: "stderr"})
			case 'o':
				w.SecurityLog = &conf_v1.SecurityLog{Enable: true, ApLogConf: "d/lco", LogDest: "stderr"}
				if mode != "aplog-missing" {
					ex.LogConfRefs["d/lco"] = &unstructured.Unstructured{Object: map[string]interface{}{"metadata": map[string]interface{}{"namespace": "d", "name": "lco"}}}
				}
			}
		}
		p.Spec.WAF = w
	case "rl":
		p.Spec.RateLimit = &conf_v1.RateLimit{Rate: "10r/s", ZoneSize: "10M", Key: "${binary_remote_addr}"}
	case "acl":
		p.Spec.AccessControl = &conf_v1.AccessControl{Allow: []string{"10.0.0.0/8"}}
	}
	return p
}

func verifBlocks(content string) (serverLevel string, locations map[string]string) {
	// the configuration has no braces inside strings in these fixtures: match blocks by depth
	locations = map[string]string{}
	idx := strings.Index(content, "\nserver {")
	if idx < 0 {
		return "", locations
	}
	depth := 0
	var cur strings.Builder
	var srv strings.Builder
	locName := ""
	for _, line := range strings.Split(content[idx+1:], "\n") {
		t := strings.TrimSpace(line)
		opens, closes := strings.Count(t, "{"), strings.Count(t, "}")
		if depth == 1 && strings.HasPrefix(t, "location ") && opens > 0 {
			locName = strings.TrimSpace(strings.TrimSuffix(strings.TrimPrefix(t, "location "), "{"))
			cur.Reset()
		}
		switch {
		case locName != "":
			cur.WriteString(t + "\n")
		case depth == 1:
			srv.WriteString(t + "\n")
		}
		depth += opens - closes
		if locName != "" && depth == 1 {
			locations[locName] = cur.String()
			locName = ""
		}
		if depth == 0 && closes > 0 {
			break
		}
	}
	return srv.String(), locations
}

// verifFcStoreHist, when set (kv store=<hist>), makes the primary Secret of the policy / TLS block under test go through a real
// LocalSecretStore first: v = add or update with valid content, i = with invalid content, g = a resource looks it up.
var verifFcStoreHist string

func verifStoreRef(typ api_v1.SecretType, name, hist string) *secrets.SecretReference {
	root, err := os.MkdirTemp("", "verif-c08-store-")
	if err != nil {
		return &secrets.SecretReference{Error: errors.New("tmp")}
	}
	defer os.RemoveAll(root)
	cnf, _, err := VerifNewConfigurator(root, true)
	if err != nil {
		return &secrets.SecretReference{Error: errors.New("setup")}
	}
	store := secrets.NewLocalSecretStore(cnf)
	short, bad := "tls", "mismatch"
	switch typ {
	case secrets.SecretTypeJWK:
		short, bad = "jwk", "missing"
	case secrets.SecretTypeHtpasswd:
		short, bad = "htp", "missing"
	case secrets.SecretTypeCA:
		short, bad = "ca", "nonpem"
	case secrets.SecretTypeOIDC:
		short, bad = "oidc", "missing"
	case secrets.SecretTypeAPIKey:
		short, bad = "api", "dup"
	}
	for i, c := range hist {
		switch c {
		case 'v':
			store.AddOrUpdateSecret(verifSecret("d", name, short, "ok", i))
		case 'i':
			store.AddOrUpdateSecret(verifSecret("d", name, short, bad, i))
		case 'g':
			_ = store.GetSecret("d/" + name)
		}
	}
	ref := store.GetSecret("d/" + name)
	// the files live in the temporary root, which is removed: the generation only writes the path(s) into the configuration
	out := *ref
	out.Path = strings.ReplaceAll(out.Path, root, "/etc/nginx")
	return &out
}

// verifWafVariant selects the shape of the WAF policy under test (set per case by VerifFailClosed; the harness is single-threaded).
var verifWafVariant string

var (
	verifBundleOnce sync.Once
	verifBundlePath string
)

// verifBundleDir is the App Protect bundle folder of the harness' Configurators: a fresh directory holding the two bundles
// that exist (pol.tgz, log.tgz); any other bundle name is "missing on disk".
func verifBundleDir() string {
	verifBundleOnce.Do(func() {
		d, err := os.MkdirTemp("", "verif-bundles-")
		if err != nil {
			return
		}
		for _, f := range []string{"pol.tgz", "log.tgz"} {
			_ = os.WriteFile(filepath.Join(d, f), []byte("bundle"), 0o600)
		}
		verifBundlePath = d
	})
	return verifBundlePath
}

var verifReturn5xx = regexp.MustCompile(`(?m)^return 5\d\d;`)

// VerifFailClosed renders a VirtualServer whose scope under test references the policy of the given kind in the given failure
// mode and reports, from the rendered text: whether the server level answers 5xx; how many locations proxy to the upstream of
// the scope under test ("bad") and how many of them answer 5xx before passing; the same for the untouched route ("good").
// kv: plus, kind, scope=spec|route|subroute|inherit, mode, nb=none|before|after|both, shape=pass|splits|matches
func VerifFailClosed(kv map[string]string) string {
	plus := kv["plus"] == "1"
	cnf, rm, err := VerifNewRecConfigurator(plus, false, true)
	if err != nil {
		return "setup-error"
	}
	cnf.EnableReloads()
	ex := verifVsEx("d", "v1", 1)
	ex.SecretRefs = map[string]*secrets.SecretReference{}
	ex.ApPolRefs = map[string]*unstructured.Unstructured{}
	ex.LogConfRefs = map[string]*unstructured.Unstructured{}
	ex.Policies = map[string]*conf_v1.Policy{}
	vs := ex.VirtualServer
	vs.Spec.Upstreams = []conf_v1.Upstream{{Name: "good", Service: "svcg", Port: 80}, {Name: "bad", Service: "svcb", Port: 80}, {Name: "bad2", Service: "svcb2", Port: 80}}
	ex.Endpoints = map[string][]string{"d/svcg:80": {"10.0.0.1:80"}, "d/svcb:80": {"10.0.0.2:80"}, "d/svcb2:80": {"10.0.0.3:80"}, "d/svcr:80": {"10.0.0.4:80"}, "d/svcr2:80": {"10.0.0.5:80"}}
	// TLS so that ingressMTLS is admissible in the spec
	vs.Spec.TLS = &conf_v1.TLS{Secret: "tls"}
	ex.SecretRefs["d/tls"] = &secrets.SecretReference{Secret: &api_v1.Secret{Type: api_v1.SecretTypeTLS}, Path: "/etc/nginx/secrets/d-tls"}
	verifWafVariant = kv["waf"]
	verifFcStoreHist = kv["store"]
	target := verifFcPolicy(kv["kind"], kv["mode"], ex)
	verifFcStoreHist = ""
	if kv["mode"] != "policy-missing" {
		ex.Policies["d/target"] = target
	}
	ex.Policies["d/nb1"] = &conf_v1.Policy{ObjectMeta: meta_v1.ObjectMeta{Namespace: "d", Name: "nb1"}, Spec: conf_v1.PolicySpec{RateLimit: &conf_v1.RateLimit{Rate: "5r/s", ZoneSize: "10M", Key: "${binary_remote_addr}"}}}
	ex.Policies["d/nb2"] = &conf_v1.Policy{ObjectMeta: meta_v1.ObjectMeta{Namespace: "d", Name: "nb2"}, Spec: conf_v1.PolicySpec{AccessControl: &conf_v1.AccessControl{Deny: []string{"10.9.9.9"}}}}
	var refs []conf_v1.PolicyReference
	if kv["nb"] == "before" || kv["nb"] == "both" {
		refs = append(refs, conf_v1.PolicyReference{Name: "nb1"})
	}
	refs = append(refs, conf_v1.PolicyReference{Name: "target"})
	if kv["nb"] == "after" || kv["nb"] == "both" {
		refs = append(refs, conf_v1.PolicyReference{Name: "nb2"})
	}
	shaped := func(path, up, up2 string) conf_v1.Route {
		r := conf_v1.Route{Path: path}
		switch kv["shape"] {
		case "splits":
			r.Splits = []conf_v1.Split{{Weight: 40, Action: &conf_v1.Action{Pass: up}}, {Weight: 60, Action: &conf_v1.Action{Pass: up2}}}
		case "matches":
			r.Matches = []conf_v1.Match{{Conditions: []conf_v1.Condition{{Header: "x-v", Value: "2"}}, Action: &conf_v1.Action{Pass: up2}}}
			r.Action = &conf_v1.Action{Pass: up}
		default:
			r.Action = &conf_v1.Action{Pass: up}
		}
		return r
	}
	vs.Spec.Routes = []conf_v1.Route{{Path: "/good", Action: &conf_v1.Action{Pass: "good"}}, shaped("/bad", "bad", "bad2")}
	switch kv["scope"] {
	case "spec":
		vs.Spec.Policies = refs
	case "route":
		vs.Spec.Routes[1].Policies = refs
	case "subroute", "inherit":
		vsrNs := "d"
		if kv["vsrns"] == "e" && kv["scope"] == "inherit" {
			// the route lives in another namespace, where a usable policy of the same name exists: the inherited,
			// un-namespaced reference must still mean the VirtualServer's namespace
			vsrNs = "e"
			ex.Policies["e/target"] = &conf_v1.Policy{ObjectMeta: meta_v1.ObjectMeta{Namespace: "e", Name: "target"}, Spec: conf_v1.PolicySpec{AccessControl: &conf_v1.AccessControl{Allow: []string{"10.0.0.0/8"}}}}
			ex.Endpoints["e/svcr:80"] = []string{"10.0.0.4:80"}
			ex.Endpoints["e/svcr2:80"] = []string{"10.0.0.5:80"}
		}
		vsr := &conf_v1.VirtualServerRoute{ObjectMeta: meta_v1.ObjectMeta{Namespace: vsrNs, Name: "r1"}}
		vsr.Spec.Host = vs.Spec.Host
		vsr.Spec.Upstreams = []conf_v1.Upstream{{Name: "bad", Service: "svcr", Port: 80}, {Name: "bad2", Service: "svcr2", Port: 80}}
		vsr.Spec.Subroutes = []conf_v1.Route{shaped("/sub/bad", "bad", "bad2")}
		vs.Spec.Routes[1] = conf_v1.Route{Path: "/sub", Route: vsrNs + "/r1"}
		if kv["scope"] == "subroute" {
			vsr.Spec.Subroutes[0].Policies = refs
		} else {
			vs.Spec.Routes[1].Policies = refs
		}
		ex.VirtualServerRoutes = []*conf_v1.VirtualServerRoute{vsr}
	}
	warnings, err := cnf.AddOrUpdateVirtualServer(ex)
	if err != nil {
		return "render-error:" + strings.ReplaceAll(err.Error(), " ", "_")
	}
	content := rm.Files["conf/vs_d_v1"]
	srv, locs := verifBlocks(content)
	srv500 := 0
	if verifReturn5xx.MatchString(srv) {
		srv500 = 1
	}
	badTotal, bad500, goodTotal, good500 := 0, 0, 0, 0
	passRe := regexp.MustCompile(`(?m)^(proxy_pass|grpc_pass)\s+\S*?(vs_d_v1_good|vs_d_v1_bad2?|vs_d_v1_vsr_[de]_r1_bad2?)\b`)
	for _, body := range locs {
		m := passRe.FindStringSubmatchIndex(body)
		if m == nil {
			continue
		}
		name := body[m[4]:m[5]]
		ret := verifReturn5xx.FindStringIndex(body)
		blocked := ret != nil && ret[0] < m[0]
		if strings.HasSuffix(name, "good") {
			goodTotal++
			if blocked {
				good500++
			}
		} else {
			badTotal++
			if blocked {
				bad500++
			}
		}
	}
	nw := 0
	for _, ws := range warnings {
		nw += len(ws)
	}
	return fmt.Sprintf("srv500=%d#bad=%d#bad500=%d#good=%d#good500=%d#warn=%d", srv500, badTotal, bad500, goodTotal, good500, nw)
}

var (
	verifSSLCertRe = regexp.MustCompile(`(?m)^\s*ssl_certificate\s+(\S+);`)
	verifRejectRe  = regexp.MustCompile(`(?m)^\s*ssl_reject_handshake\s+on;`)
)

// VerifFailClosedTLS renders an Ingress (regular / master with a minion) or a VirtualServer whose host names a TLS Secret in the
// given state, and (Ingress) JWT / basic-auth annotations whose Secret is in the given state.
// kv: plus, res=ing|master|vs, mode=ok|secret-missing|secret-invalid|secret-wrongtype, auth=none|jwt|basic, amode=<same modes>
func VerifFailClosedTLS(kv map[string]string) string {
	plus := kv["plus"] == "1"
	cnf, rm, err := VerifNewRecConfigurator(plus, false, true)
	if err != nil {
		return "setup-error"
	}
	cnf.EnableReloads()
	file := ""
	switch kv["res"] {
	case "vs":
		ex := verifVsEx("d", "v1", 1)
		ex.VirtualServer.Spec.TLS = &conf_v1.TLS{Secret: "tls"}
		ex.SecretRefs = map[string]*secrets.SecretReference{"d/tls": verifFcSecret(api_v1.SecretTypeTLS, kv["mode"], "/etc/nginx/secrets/d-tls")}
		if _, err := cnf.AddOrUpdateVirtualServer(ex); err != nil {
			return "render-error"
		}
		file = "conf/vs_d_v1"
	default:
		var ing *IngressEx
		var m *MergeableIngresses
		if kv["res"] == "master" {
			m = verifRelMergeable("m1", "a", 0)
			ing = m.Master
		} else {
			ing = verifRelIng("i1", "a", 0)
		}
		host := ing.Ingress.Spec.Rules[0].Host
		ing.Ingress.Spec.TLS = []networking.IngressTLS{{Hosts: []string{host}, SecretName: "tls"}}
		ing.SecretRefs = map[string]*secrets.SecretReference{"tls": verifFcSecret(api_v1.SecretTypeTLS, kv["mode"], "/etc/nginx/secrets/d-tls")}
		if ing.Ingress.Annotations == nil {
			ing.Ingress.Annotations = map[string]string{}
		}
		switch kv["auth"] {
		case "jwt":
			ing.Ingress.Annotations["nginx.com/jwt-key"] = "jwk"
			ing.Ingress.Annotations["nginx.com/jwt-realm"] = "r"
			ing.SecretRefs["jwk"] = verifFcSecret(secrets.SecretTypeJWK, kv["amode"], "/etc/nginx/secrets/d-jwk")
		case "basic":
			ing.Ingress.Annotations["nginx.org/basic-auth-secret"] = "htp"
			ing.SecretRefs["htp"] = verifFcSecret(secrets.SecretTypeHtpasswd, kv["amode"], "/etc/nginx/secrets/d-htp")
		}
		if kv["direct"] == "1" && m == nil {
			// the generator function itself, with the SecretReference exactly as the secret store hands it over
			cfg, _ := generateNginxCfg(NginxCfgParams{staticParams: &StaticConfigParams{}, ingEx: ing, BaseCfgParams: NewDefaultConfigParams(cnf.CfgParams.Context, plus), isPlus: plus})
			a := 0
			if len(cfg.Servers) == 1 && ((kv["auth"] == "basic" && cfg.Servers[0].BasicAuth != nil) || (kv["auth"] == "jwt" && cfg.Servers[0].JWTAuth != nil)) {
				a = 1
			}
			rj := 0
			if len(cfg.Servers) == 1 && cfg.Servers[0].SSLRejectHandshake {
				rj = 1
			}
			crt := "-"
			if len(cfg.Servers) == 1 && cfg.Servers[0].SSLCertificate != "" {
				crt = cfg.Servers[0].SSLCertificate
			}
			return fmt.Sprintf("reject=%d#cert=%s#auth=%d#ssl=0", rj, crt, a)
		}
		if m != nil {
			if _, err := cnf.AddOrUpdateMergeableIngress(m); err != nil {
				return "render-error"
			}
			file = "conf/d-m1"
		} else {
			if _, err := cnf.AddOrUpdateIngress(ing); err != nil {
				return "render-error"
			}
			file = "conf/d-i1"
		}
	}
	c := rm.Files[file]
	reject, cert, authon := 0, "-", 0
	if verifRejectRe.MatchString(c) {
		reject = 1
	}
	if m := verifSSLCertRe.FindStringSubmatch(c); m != nil {
		cert = strings.ReplaceAll(m[1], "$secret_dir_path", "/etc/nginx/secrets")
	}
	if regexp.MustCompile(`(?m)^\s*auth_jwt_key_file\s+\S+;`).MatchString(c) && regexp.MustCompile(`(?m)^\s*auth_jwt\s+`).MatchString(c) {
		authon = 1
	}
	if regexp.MustCompile(`(?m)^\s*auth_basic_user_file\s+\S+;`).MatchString(c) && regexp.MustCompile(`(?m)^\s*auth_basic\s+`).MatchString(c) {
		authon = 1
	}
	listen443 := 0
	if strings.Contains(c, "listen 443 ssl") {
		listen443 = 1
	}
	return fmt.Sprintf("reject=%d#cert=%s#auth=%d#ssl=%d", reject, cert, authon, listen443)
}
