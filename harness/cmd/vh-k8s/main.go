//go:build verif

// Command vh-k8s runs verification cases against package internal/k8s.
package main

import (
	"github.com/nginx/kubernetes-ingress/internal/k8s"
	"github.com/nginx/kubernetes-ingress/internal/verifio"
)

func main() {
	verifio.Main(map[string]verifio.Runner{
		"arb":   func(f []string) string { return k8s.VerifArb(verifio.KV(f)) },
		"polst": func(f []string) string { return k8s.VerifPolicyStatus(verifio.KV(f)) },
		"eps":   func(f []string) string { return k8s.VerifEps(verifio.KV(f)) },
		"refs":  func(f []string) string { return k8s.VerifRefs(verifio.KV(f)) },
		"crash": func(f []string) string { return k8s.VerifCrash(verifio.KV(f)) },
		"lbc":   func(f []string) string { return k8s.VerifLbc(verifio.KV(f)) },
		"cls":   func(f []string) string { return k8s.VerifClass(verifio.KV(f)) },
	})
}
