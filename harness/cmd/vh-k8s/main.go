//go:build verif

// Command vh-k8s runs verification cases against package internal/k8s.
package main

import (
	"github.com/nginx/kubernetes-ingress/internal/configs"
	"github.com/nginx/kubernetes-ingress/internal/k8s"
	"github.com/nginx/kubernetes-ingress/internal/verifio"
)

func main() {
	verifio.Main(map[string]verifio.Runner{
		"arb":       func(f []string) string { return k8s.VerifArb(verifio.KV(f)) },
		"polst":     func(f []string) string { return k8s.VerifPolicyStatus(verifio.KV(f)) },
		"eps":       func(f []string) string { return k8s.VerifEps(verifio.KV(f)) },
		"reseps":    func(f []string) string { return k8s.VerifResEps(verifio.KV(f)) },
		"refs":      func(f []string) string { return k8s.VerifRefs(verifio.KV(f)) },
		"crash":     func(f []string) string { return k8s.VerifCrash(verifio.KV(f)) },
		"lbc":       func(f []string) string { return k8s.VerifLbc(verifio.KV(f)) },
		"gcreport":  func(f []string) string { return k8s.VerifGcReport(verifio.KV(f)) },
		"cls":       func(f []string) string { return k8s.VerifClass(verifio.KV(f)) },
		"injlist":   func(f []string) string { return k8s.VerifInjList(verifio.KV(f)) },
		"injbase":   func(f []string) string { return k8s.VerifInjBase(verifio.KV(f)) },
		"injfiles":  func(f []string) string { return k8s.VerifInjFiles(verifio.KV(f)) },
		"tmpl":      func(f []string) string { return "-" },
		"tmplsites": func(f []string) string { return "-" },
		"nm":        func(f []string) string { return configs.VerifName(verifio.KV(f)) },
		"injwf":     func(f []string) string { return k8s.VerifInjWf(verifio.KV(f)) },
		"wf":        func(f []string) string { return k8s.VerifWf(verifio.KV(f)) },
		"inj":       func(f []string) string { return k8s.VerifInj(verifio.KV(f)) },
		"re":        func(f []string) string { return verifio.VerifRe(verifio.KV(f)) },
		"lex":       func(f []string) string { return verifio.VerifLex(verifio.KV(f)) },
	})
}
