//go:build verif

// Command vh-ap runs verification cases against the App Protect arbitration packages.
package main

import (
	"github.com/nginx/kubernetes-ingress/internal/k8s/appprotect"
	"github.com/nginx/kubernetes-ingress/internal/k8s/appprotectdos"
	"github.com/nginx/kubernetes-ingress/internal/verifio"
)

func main() {
	verifio.Main(map[string]verifio.Runner{
		"dos": func(f []string) string { return appprotectdos.VerifDos(verifio.KV(f)) },
		"ap":  func(f []string) string { return appprotect.VerifAP(verifio.KV(f)) },
	})
}
