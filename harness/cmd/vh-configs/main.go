//go:build verif

// Command vh-configs runs verification cases against package internal/configs.
package main

import (
	"github.com/nginx/kubernetes-ingress/internal/configs"
	"github.com/nginx/kubernetes-ingress/internal/verifio"
)

func main() {
	verifio.Main(map[string]verifio.Runner{
		"files": func(f []string) string { return configs.VerifFiles(verifio.KV(f)) },
		"sec":   func(f []string) string { return configs.VerifSecrets(verifio.KV(f)) },
		"det":   func(f []string) string { return configs.VerifDet(verifio.KV(f)) },
		"fc":    func(f []string) string { return configs.VerifFailClosed(verifio.KV(f)) },
		"fctls": func(f []string) string { return configs.VerifFailClosedTLS(verifio.KV(f)) },
		"rel":   func(f []string) string { return configs.VerifReload(verifio.KV(f)) },
	})
}
