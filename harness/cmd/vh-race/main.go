//go:build verif

// Command vh-race runs the concurrency cases of package internal/k8s; it is built with -race.
package main

import (
	"github.com/nginx/kubernetes-ingress/internal/k8s"
	"github.com/nginx/kubernetes-ingress/internal/verifio"
)

func main() {
	verifio.Main(map[string]verifio.Runner{
		"race": func(f []string) string { return k8s.VerifRace(verifio.KV(f)) },
	})
}
