//go:build verif

// Command vh-nginx runs verification cases against package internal/nginx.
package main

import (
	"github.com/nginx/kubernetes-ingress/internal/nginx"
	"github.com/nginx/kubernetes-ingress/internal/verifio"
)

func main() {
	verifio.Main(map[string]verifio.Runner{
		"wait": func(f []string) string { return nginx.VerifWait(verifio.KV(f)) },
		"atoi": func(f []string) string { return nginx.VerifAtoi(verifio.KV(f)) },
		"mgr":  func(f []string) string { return nginx.VerifMgr(verifio.KV(f)) },
	})
}
