//go:build verif

// Command vh-derived runs verification cases against the cert-manager / ExternalDNS synchronisation.
package main

import (
	"github.com/nginx/kubernetes-ingress/internal/certmanager"
	"github.com/nginx/kubernetes-ingress/internal/externaldns"
	"github.com/nginx/kubernetes-ingress/internal/verifio"
)

func main() {
	verifio.Main(map[string]verifio.Runner{
		"dns": func(f []string) string { return externaldns.VerifDNS(verifio.KV(f)) },
		"crt": func(f []string) string { return certmanager.VerifCert(verifio.KV(f)) },
	})
}
