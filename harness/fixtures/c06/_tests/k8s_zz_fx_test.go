package k8s

// Fixture acceptance + coverage test for the c06 Ingress fixtures.
//
// Loads every ingress-*.yaml from fxDir, decodes it strictly into
// networking/v1 Ingress, runs the controller's validateIngress for the
// flavours the file name demands and reports (a) which type-level string paths
// of IngressSpec and (b) which keys of annotationValidations are not populated
// by any fixture.

import (
	"fmt"
	"os"
	"path/filepath"
	"reflect"
	"sort"
	"strings"
	"testing"

	corev1 "k8s.io/api/core/v1"
	networking "k8s.io/api/networking/v1"
	k8svalidation "k8s.io/apimachinery/pkg/util/validation"
	"sigs.k8s.io/yaml"
)

const (
	fxDir       = "/verif/harness/fixtures/c06"
	fxNamespace = "d"
)

type fxFile struct {
	path     string
	base     string
	kind     string // ingress, vs, vsr, ts, policy
	plusOnly bool
	data     []byte
}

func (f fxFile) flavours() []bool {
	if f.plusOnly {
		return []bool{true}
	}
	return []bool{false, true}
}

func fxLoad(t *testing.T, kinds ...string) []fxFile {
	t.Helper()
	matches, err := filepath.Glob(filepath.Join(fxDir, "*.yaml"))
	if err != nil {
		t.Fatal(err)
	}
	sort.Strings(matches)
	want := map[string]bool{}
	for _, k := range kinds {
		want[k] = true
	}
	var out []fxFile
	for _, p := range matches {
		base := filepath.Base(p)
		i := strings.Index(base, "-")
		if i < 0 {
			t.Fatalf("%s: file name must be <kind>-<label>.yaml", base)
		}
		kind := base[:i]
		switch kind {
		case "ingress", "vs", "vsr", "ts", "policy":
		default:
			t.Fatalf("%s: unknown kind prefix %q", base, kind)
		}
		if !want[kind] {
			continue
		}
		data, err := os.ReadFile(p)
		if err != nil {
			t.Fatal(err)
		}
		out = append(out, fxFile{
			path:     p,
			base:     base,
			kind:     kind,
			plusOnly: strings.HasSuffix(base, ".plus.yaml"),
			data:     data,
		})
	}
	return out
}

func fxCheckMeta(t *testing.T, f fxFile, apiVersion, kind, wantAPIVersion, wantKind, name, namespace string) {
	t.Helper()
	if apiVersion != wantAPIVersion || kind != wantKind {
		t.Errorf("%s: apiVersion/kind = %s/%s, want %s/%s", f.base, apiVersion, kind, wantAPIVersion, wantKind)
	}
	if namespace != fxNamespace {
		t.Errorf("%s: namespace = %q, want %q", f.base, namespace, fxNamespace)
	}
	if msgs := k8svalidation.IsDNS1123Subdomain(name); len(msgs) > 0 || name == "" {
		t.Errorf("%s: metadata.name %q is not a DNS-1123 name: %v", f.base, name, msgs)
	}
}

// ---------------------------------------------------------------------------
// reflection-based string-leaf coverage

func fxJSONName(sf reflect.StructField) (name string, inline bool, skip bool) {
	if sf.PkgPath != "" && !sf.Anonymous {
		return "", false, true
	}
	tag := sf.Tag.Get("json")
	if tag == "-" {
		return "", false, true
	}
	parts := strings.Split(tag, ",")
	name = parts[0]
	for _, o := range parts[1:] {
		if o == "inline" {
			inline = true
		}
	}
	if name == "" {
		if sf.Anonymous || inline {
			return "", true, false
		}
		name = sf.Name
	}
	return name, false, false
}

// fxTypePaths enumerates every type-level path ending in a string-kinded leaf.
// Slice steps are written "[]", map[string]... value steps "{}".
func fxTypePaths(t reflect.Type, prefix string, out *[]string, depth int) {
	if depth > 64 {
		panic("fxTypePaths: type recursion at " + prefix)
	}
	switch t.Kind() {
	case reflect.Ptr:
		fxTypePaths(t.Elem(), prefix, out, depth+1)
	case reflect.String:
		*out = append(*out, prefix)
	case reflect.Slice, reflect.Array:
		fxTypePaths(t.Elem(), prefix+"[]", out, depth+1)
	case reflect.Map:
		if t.Key().Kind() == reflect.String {
			fxTypePaths(t.Elem(), prefix+"{}", out, depth+1)
		}
	case reflect.Struct:
		for i := 0; i < t.NumField(); i++ {
			sf := t.Field(i)
			name, inline, skip := fxJSONName(sf)
			if skip {
				continue
			}
			if inline {
				fxTypePaths(sf.Type, prefix, out, depth+1)
			} else {
				fxTypePaths(sf.Type, prefix+"."+name, out, depth+1)
			}
		}
	}
}

// fxValuePaths marks every path that holds a non-empty string in v.
func fxValuePaths(v reflect.Value, prefix string, hit map[string][]string, src string) {
	switch v.Kind() {
	case reflect.Ptr, reflect.Interface:
		if !v.IsNil() {
			fxValuePaths(v.Elem(), prefix, hit, src)
		}
	case reflect.String:
		if v.String() != "" {
			if n := len(hit[prefix]); n == 0 || hit[prefix][n-1] != src {
				hit[prefix] = append(hit[prefix], src)
			}
		}
	case reflect.Slice, reflect.Array:
		for i := 0; i < v.Len(); i++ {
			fxValuePaths(v.Index(i), prefix+"[]", hit, src)
		}
	case reflect.Map:
		if v.Type().Key().Kind() == reflect.String {
			for _, k := range v.MapKeys() {
				fxValuePaths(v.MapIndex(k), prefix+"{}", hit, src)
			}
		}
	case reflect.Struct:
		t := v.Type()
		for i := 0; i < t.NumField(); i++ {
			name, inline, skip := fxJSONName(t.Field(i))
			if skip {
				continue
			}
			if inline {
				fxValuePaths(v.Field(i), prefix, hit, src)
			} else {
				fxValuePaths(v.Field(i), prefix+"."+name, hit, src)
			}
		}
	}
}

type fxCoverage struct {
	root string
	all  []string
	hit  map[string][]string
}

func newFxCoverage(root string, specType reflect.Type) *fxCoverage {
	c := &fxCoverage{root: root, hit: map[string][]string{}}
	fxTypePaths(specType, root+".spec", &c.all, 0)
	return c
}

func (c *fxCoverage) add(spec interface{}, src string) {
	fxValuePaths(reflect.ValueOf(spec), c.root+".spec", c.hit, src)
}

func (c *fxCoverage) report(t *testing.T) {
	t.Helper()
	var sb strings.Builder
	covered := 0
	var uncovered []string
	for _, p := range c.all {
		if len(c.hit[p]) > 0 {
			covered++
		} else {
			uncovered = append(uncovered, p)
		}
	}
	fmt.Fprintf(&sb, "COVERAGE %s: %d string paths, %d covered, %d uncovered\n", c.root, len(c.all), covered, len(uncovered))
	for _, p := range uncovered {
		fmt.Fprintf(&sb, "  UNCOVERED %s\n", p)
	}
	for _, p := range c.all {
		if len(c.hit[p]) > 0 {
			fmt.Fprintf(&sb, "  covered   %s <- %s\n", p, strings.Join(c.hit[p], ","))
		}
	}
	for p := range c.hit {
		found := false
		for _, q := range c.all {
			if p == q {
				found = true
			}
		}
		if !found {
			t.Errorf("value path %s not among type paths", p)
		}
	}
	t.Log("\n" + sb.String())
	_ = os.WriteFile(filepath.Join(os.TempDir(), "fx-cov-"+c.root+".txt"), []byte(sb.String()), 0o600)
}

// ---------------------------------------------------------------------------

func TestFxIngresses(t *testing.T) {
	cov := newFxCoverage("Ingress", reflect.TypeOf(networking.IngressSpec{}))
	files := fxLoad(t, "ingress")
	if len(files) == 0 {
		t.Fatal("no ingress fixtures")
	}
	annHit := map[string][]string{}
	masters := map[string]string{}
	minions := map[string]string{}
	for _, f := range files {
		ing := &networking.Ingress{}
		if err := yaml.UnmarshalStrict(f.data, ing); err != nil {
			t.Errorf("%s: decode: %v", f.base, err)
			continue
		}
		fxCheckMeta(t, f, ing.APIVersion, ing.Kind, "networking.k8s.io/v1", "Ingress", ing.Name, ing.Namespace)
		for _, plus := range f.flavours() {
			errs := validateIngress(ing, plus, true, true, true, false)
			if err := errs.ToAggregate(); err != nil {
				flavour := "oss"
				if plus {
					flavour = "plus"
				}
				t.Errorf("%s [%s]: rejected: %v", f.base, flavour, err)
			}
		}
		if f.plusOnly {
			if err := validateIngress(ing, false, true, true, true, false).ToAggregate(); err == nil {
				t.Logf("NOTE %s: plus-only fixture is ALSO accepted with plus=false", f.base)
			} else {
				t.Logf("NOTE %s: with plus=false rejected as expected: %s", f.base, strings.ReplaceAll(err.Error(), "\n", " | "))
			}
		}
		for k, v := range ing.Annotations {
			if _, known := annotationValidations[k]; !known {
				t.Errorf("%s: annotation %s is not in annotationValidations", f.base, k)
				continue
			}
			if v != "" {
				annHit[k] = append(annHit[k], f.base)
			}
		}
		if isMaster(ing) {
			masters[ing.Spec.Rules[0].Host] = f.base
		}
		if isMinion(ing) {
			minions[ing.Spec.Rules[0].Host] = f.base
		}
		cov.add(ing.Spec, f.base)
	}
	for h, m := range minions {
		if _, ok := masters[h]; !ok {
			t.Errorf("%s: minion host %s has no master fixture", m, h)
		}
	}
	for h, m := range masters {
		if _, ok := minions[h]; !ok {
			t.Errorf("%s: master host %s has no minion fixture", m, h)
		}
	}
	cov.report(t)

	var sb strings.Builder
	n := 0
	for _, k := range annotationNames {
		if len(annHit[k]) > 0 {
			n++
		}
	}
	fmt.Fprintf(&sb, "ANNOTATIONS: %d keys in annotationValidations, %d set by a fixture\n", len(annotationNames), n)
	for _, k := range annotationNames {
		if len(annHit[k]) > 0 {
			sort.Strings(annHit[k])
			fmt.Fprintf(&sb, "  set   %s <- %s\n", k, strings.Join(annHit[k], ","))
		} else {
			fmt.Fprintf(&sb, "  UNSET %s\n", k)
		}
	}
	t.Log("\n" + sb.String())
	_ = os.WriteFile(filepath.Join(os.TempDir(), "fx-cov-Ingress-annotations.txt"), []byte(sb.String()), 0o600)
}

// TestFxUncoveredReasons shows that the Ingress paths / annotation keys left
// uncovered by the fixture set are rejected by validateIngress under the
// required configuration (snippets disabled; resource backends unsupported).
func TestFxUncoveredReasons(t *testing.T) {
	data, err := os.ReadFile(filepath.Join(fxDir, "ingress-cafe.yaml"))
	if err != nil {
		t.Fatal(err)
	}
	load := func() *networking.Ingress {
		ing := &networking.Ingress{}
		if err := yaml.UnmarshalStrict(data, ing); err != nil {
			t.Fatal(err)
		}
		return ing
	}
	mustReject := func(what string, ing *networking.Ingress) {
		t.Helper()
		for _, plus := range []bool{false, true} {
			err := validateIngress(ing, plus, true, true, true, false).ToAggregate()
			if err == nil {
				t.Errorf("%s [plus=%v]: expected rejection, got acceptance", what, plus)
				continue
			}
			t.Logf("REJECTED %s [plus=%v]: %s", what, plus, strings.ReplaceAll(err.Error(), "\n", " | "))
		}
	}
	apiGroup := "k8s.example.com"
	res := func() *networking.IngressBackend {
		return &networking.IngressBackend{Resource: &corev1.TypedLocalObjectReference{APIGroup: &apiGroup, Kind: "StorageBucket", Name: "static-assets"}}
	}

	ing := load()
	ing.Spec.DefaultBackend = res()
	mustReject("Ingress.spec.defaultBackend.resource.*", ing)

	ing = load()
	pt := networking.PathTypePrefix
	ing.Spec.Rules[0].HTTP.Paths = append(ing.Spec.Rules[0].HTTP.Paths, networking.HTTPIngressPath{Path: "/assets", PathType: &pt, Backend: *res()})
	mustReject("Ingress.spec.rules[].http.paths[].backend.resource.*", ing)

	ing = load()
	ing.Annotations[serverSnippetsAnnotation] = "deny 192.168.1.1;"
	mustReject("annotation "+serverSnippetsAnnotation, ing)

	ing = load()
	ing.Annotations[locationSnippetsAnnotation] = "add_header X-Cafe-Route tea;"
	mustReject("annotation "+locationSnippetsAnnotation, ing)
}

// TestFxValidatorObservations pins down validator behaviour worth knowing when
// generating inputs: values that are accepted although they are not "shaped".
func TestFxValidatorObservations(t *testing.T) {
	data, err := os.ReadFile(filepath.Join(fxDir, "ingress-cafe-plus.plus.yaml"))
	if err != nil {
		t.Fatal(err)
	}
	check := func(what string, plus bool, mutate func(ing *networking.Ingress)) {
		t.Helper()
		ing := &networking.Ingress{}
		if err := yaml.UnmarshalStrict(data, ing); err != nil {
			t.Fatal(err)
		}
		mutate(ing)
		if err := validateIngress(ing, plus, true, true, true, false).ToAggregate(); err != nil {
			t.Errorf("OBSERVATION no longer holds: %s: %v", what, err)
			return
		}
		t.Logf("OBSERVED (accepted, plus=%v): %s", plus, what)
	}
	check("nginx.org/server-tokens accepts free text under Plus (anything without '\"', '$', trailing '\\')", true, func(ing *networking.Ingress) {
		ing.Annotations[serverTokensAnnotation] = "any free text; even {braces} and semicolons"
	})
	check("nginx.org/lb-method accepts 'hash <any single token>'", true, func(ing *networking.Ingress) {
		ing.Annotations[lbMethodAnnotation] = "hash any;token{}"
	})
	check("nginx.com/sticky-cookie-services: the key before '=' is not checked and cookie parameters are free text (no ';', '\"', '$')", true, func(ing *networking.Ingress) {
		ing.Annotations[stickyCookieServicesAnnotation] = "whatever=coffee-svc free text with {braces}"
	})
	check("nginx.com/jwt-token only needs a leading '$' followed by free text", true, func(ing *networking.Ingress) {
		ing.Annotations[jwtTokenAnnotation] = "$not a variable; at all"
	})
	check("nginx.org/proxy-set-headers header values are free text apart from '$' and ','", true, func(ing *networking.Ingress) {
		ing.Annotations[proxySetHeadersAnnotation] = "X-Cafe: free text; with {braces} and \"quotes\""
	})
	check("ingress path /app/etc/passwd is accepted: in the illegal-keyword regexp only '/etc/' is anchored to the start", true, func(ing *networking.Ingress) {
		ing.Spec.Rules[0].HTTP.Paths[0].Path = "/app/etc/passwd"
	})
	for _, p := range []string{"/tea/variety", "/rooted", "/vargas"} {
		ing := &networking.Ingress{}
		if err := yaml.UnmarshalStrict(data, ing); err != nil {
			t.Fatal(err)
		}
		ing.Spec.Rules[0].HTTP.Paths[0].Path = p
		if err := validateIngress(ing, true, true, true, true, false).ToAggregate(); err == nil {
			t.Errorf("OBSERVATION no longer holds: benign path %s is accepted", p)
		} else {
			t.Logf("OBSERVED (rejected): benign ingress path %s is rejected because '/root' and '/var' in the illegal-keyword regexp are unanchored substrings: %v", p, err)
		}
	}
}
