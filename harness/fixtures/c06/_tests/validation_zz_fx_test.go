package validation

// Fixture acceptance + string-leaf coverage test for the c06 fixture set.
//
// Loads every YAML file from fxDir, decodes it strictly into the typed
// structs, runs the controller's own validators for the flavours the file
// name demands (<kind>-<label>.yaml: OSS and Plus; <kind>-<label>.plus.yaml:
// Plus only) and reports which type-level string paths have no non-empty
// instance in any fixture of that kind.

import (
	"fmt"
	"os"
	"path/filepath"
	"reflect"
	"sort"
	"strings"
	"testing"

	v1 "github.com/nginx/kubernetes-ingress/pkg/apis/configuration/v1"
	k8svalidation "k8s.io/apimachinery/pkg/util/validation"
	"sigs.k8s.io/yaml"
)

const (
	fxDir       = "/verif/harness/fixtures/c06"
	fxNamespace = "d"
)

type fxFile struct {
	path     string
	base     string
	kind     string // ingress, vs, vsr, ts, policy
	plusOnly bool
	data     []byte
}

func (f fxFile) flavours() []bool {
	if f.plusOnly {
		return []bool{true}
	}
	return []bool{false, true}
}

func fxLoad(t *testing.T, kinds ...string) []fxFile {
	t.Helper()
	matches, err := filepath.Glob(filepath.Join(fxDir, "*.yaml"))
	if err != nil {
		t.Fatal(err)
	}
	sort.Strings(matches)
	want := map[string]bool{}
	for _, k := range kinds {
		want[k] = true
	}
	var out []fxFile
	for _, p := range matches {
		base := filepath.Base(p)
		i := strings.Index(base, "-")
		if i < 0 {
			t.Fatalf("%s: file name must be <kind>-<label>.yaml", base)
		}
		kind := base[:i]
		switch kind {
		case "ingress", "vs", "vsr", "ts", "policy":
		default:
			t.Fatalf("%s: unknown kind prefix %q", base, kind)
		}
		if !want[kind] {
			continue
		}
		data, err := os.ReadFile(p)
		if err != nil {
			t.Fatal(err)
		}
		out = append(out, fxFile{
			path:     p,
			base:     base,
			kind:     kind,
			plusOnly: strings.HasSuffix(base, ".plus.yaml"),
			data:     data,
		})
	}
	return out
}

func fxCheckMeta(t *testing.T, f fxFile, apiVersion, kind, wantAPIVersion, wantKind, name, namespace string) {
	t.Helper()
	if apiVersion != wantAPIVersion || kind != wantKind {
		t.Errorf("%s: apiVersion/kind = %s/%s, want %s/%s", f.base, apiVersion, kind, wantAPIVersion, wantKind)
	}
	if namespace != fxNamespace {
		t.Errorf("%s: namespace = %q, want %q", f.base, namespace, fxNamespace)
	}
	if msgs := k8svalidation.IsDNS1123Subdomain(name); len(msgs) > 0 || name == "" {
		t.Errorf("%s: metadata.name %q is not a DNS-1123 name: %v", f.base, name, msgs)
	}
}

// ---------------------------------------------------------------------------
// reflection-based string-leaf coverage

func fxJSONName(sf reflect.StructField) (name string, inline bool, skip bool) {
	if sf.PkgPath != "" && !sf.Anonymous {
		return "", false, true
	}
	tag := sf.Tag.Get("json")
	if tag == "-" {
		return "", false, true
	}
	parts := strings.Split(tag, ",")
	name = parts[0]
	for _, o := range parts[1:] {
		if o == "inline" {
			inline = true
		}
	}
	if name == "" {
		if sf.Anonymous || inline {
			return "", true, false
		}
		name = sf.Name
	}
	return name, false, false
}

// fxTypePaths enumerates every type-level path ending in a string-kinded leaf.
// Slice steps are written "[]", map[string]... value steps "{}".
func fxTypePaths(t reflect.Type, prefix string, out *[]string, depth int) {
	if depth > 64 {
		panic("fxTypePaths: type recursion at " + prefix)
	}
	switch t.Kind() {
	case reflect.Ptr:
		fxTypePaths(t.Elem(), prefix, out, depth+1)
	case reflect.String:
		*out = append(*out, prefix)
	case reflect.Slice, reflect.Array:
		fxTypePaths(t.Elem(), prefix+"[]", out, depth+1)
	case reflect.Map:
		if t.Key().Kind() == reflect.String {
			fxTypePaths(t.Elem(), prefix+"{}", out, depth+1)
		}
	case reflect.Struct:
		for i := 0; i < t.NumField(); i++ {
			sf := t.Field(i)
			name, inline, skip := fxJSONName(sf)
			if skip {
				continue
			}
			if inline {
				fxTypePaths(sf.Type, prefix, out, depth+1)
			} else {
				fxTypePaths(sf.Type, prefix+"."+name, out, depth+1)
			}
		}
	}
}

// fxValuePaths marks every path that holds a non-empty string in v.
func fxValuePaths(v reflect.Value, prefix string, hit map[string][]string, src string) {
	switch v.Kind() {
	case reflect.Ptr, reflect.Interface:
		if !v.IsNil() {
			fxValuePaths(v.Elem(), prefix, hit, src)
		}
	case reflect.String:
		if v.String() != "" {
			if n := len(hit[prefix]); n == 0 || hit[prefix][n-1] != src {
				hit[prefix] = append(hit[prefix], src)
			}
		}
	case reflect.Slice, reflect.Array:
		for i := 0; i < v.Len(); i++ {
			fxValuePaths(v.Index(i), prefix+"[]", hit, src)
		}
	case reflect.Map:
		if v.Type().Key().Kind() == reflect.String {
			for _, k := range v.MapKeys() {
				fxValuePaths(v.MapIndex(k), prefix+"{}", hit, src)
			}
		}
	case reflect.Struct:
		t := v.Type()
		for i := 0; i < t.NumField(); i++ {
			name, inline, skip := fxJSONName(t.Field(i))
			if skip {
				continue
			}
			if inline {
				fxValuePaths(v.Field(i), prefix, hit, src)
			} else {
				fxValuePaths(v.Field(i), prefix+"."+name, hit, src)
			}
		}
	}
}

type fxCoverage struct {
	root string
	all  []string
	hit  map[string][]string
}

func newFxCoverage(root string, specType reflect.Type) *fxCoverage {
	c := &fxCoverage{root: root, hit: map[string][]string{}}
	fxTypePaths(specType, root+".spec", &c.all, 0)
	return c
}

func (c *fxCoverage) add(spec interface{}, src string) {
	fxValuePaths(reflect.ValueOf(spec), c.root+".spec", c.hit, src)
}

func (c *fxCoverage) report(t *testing.T) {
	t.Helper()
	var sb strings.Builder
	covered := 0
	var uncovered []string
	for _, p := range c.all {
		if len(c.hit[p]) > 0 {
			covered++
		} else {
			uncovered = append(uncovered, p)
		}
	}
	fmt.Fprintf(&sb, "COVERAGE %s: %d string paths, %d covered, %d uncovered\n", c.root, len(c.all), covered, len(uncovered))
	for _, p := range uncovered {
		fmt.Fprintf(&sb, "  UNCOVERED %s\n", p)
	}
	for _, p := range c.all {
		if len(c.hit[p]) > 0 {
			fmt.Fprintf(&sb, "  covered   %s <- %s\n", p, strings.Join(c.hit[p], ","))
		}
	}
	for p := range c.hit {
		found := false
		for _, q := range c.all {
			if p == q {
				found = true
			}
		}
		if !found {
			t.Errorf("value path %s not among type paths", p)
		}
	}
	t.Log("\n" + sb.String())
	_ = os.WriteFile(filepath.Join(os.TempDir(), "fx-cov-"+c.root+".txt"), []byte(sb.String()), 0o600)
}

// ---------------------------------------------------------------------------

func fxVSValidator(plus bool) *VirtualServerValidator {
	return NewVirtualServerValidator(IsPlus(plus), IsDosEnabled(true), IsCertManagerEnabled(true), IsExternalDNSEnabled(true))
}

// fxNoteOSS logs what the OSS validator says about a plus-only fixture (informational only).
func fxNoteOSS(t *testing.T, f fxFile, err error) {
	t.Helper()
	if !f.plusOnly {
		return
	}
	if err == nil {
		t.Logf("NOTE %s: plus-only fixture is ALSO accepted with plus=false (validator does not gate these fields)", f.base)
		return
	}
	t.Logf("NOTE %s: with plus=false rejected as expected: %s", f.base, strings.ReplaceAll(err.Error(), "\n", " | "))
}

func fxFlavourName(plus bool) string {
	if plus {
		return "plus"
	}
	return "oss"
}

func TestFxPolicies(t *testing.T) {
	cov := newFxCoverage("Policy", reflect.TypeOf(v1.PolicySpec{}))
	files := fxLoad(t, "policy")
	if len(files) == 0 {
		t.Fatal("no policy fixtures")
	}
	for _, f := range files {
		var pol v1.Policy
		if err := yaml.UnmarshalStrict(f.data, &pol); err != nil {
			t.Errorf("%s: decode: %v", f.base, err)
			continue
		}
		fxCheckMeta(t, f, pol.APIVersion, pol.Kind, "k8s.nginx.org/v1", "Policy", pol.Name, pol.Namespace)
		for _, plus := range f.flavours() {
			if err := ValidatePolicy(&pol, plus, true, true); err != nil {
				t.Errorf("%s [%s]: rejected: %v", f.base, fxFlavourName(plus), err)
			}
		}
		fxNoteOSS(t, f, ValidatePolicy(&pol, false, true, true))
		cov.add(pol.Spec, f.base)
	}
	cov.report(t)
}

func TestFxTransportServers(t *testing.T) {
	cov := newFxCoverage("TransportServer", reflect.TypeOf(v1.TransportServerSpec{}))
	files := fxLoad(t, "ts")
	if len(files) == 0 {
		t.Fatal("no ts fixtures")
	}
	for _, f := range files {
		var ts v1.TransportServer
		if err := yaml.UnmarshalStrict(f.data, &ts); err != nil {
			t.Errorf("%s: decode: %v", f.base, err)
			continue
		}
		fxCheckMeta(t, f, ts.APIVersion, ts.Kind, "k8s.nginx.org/v1", "TransportServer", ts.Name, ts.Namespace)
		for _, plus := range f.flavours() {
			if err := NewTransportServerValidator(true, false, plus).ValidateTransportServer(&ts); err != nil {
				t.Errorf("%s [%s]: rejected: %v", f.base, fxFlavourName(plus), err)
			}
		}
		fxNoteOSS(t, f, NewTransportServerValidator(true, false, false).ValidateTransportServer(&ts))
		cov.add(ts.Spec, f.base)
	}
	cov.report(t)
}

func fxPolicyIndex(t *testing.T) map[string]fxFile {
	idx := map[string]fxFile{}
	for _, f := range fxLoad(t, "policy") {
		var pol v1.Policy
		if err := yaml.UnmarshalStrict(f.data, &pol); err != nil {
			continue
		}
		idx[pol.Namespace+"/"+pol.Name] = f
	}
	return idx
}

func fxCheckPolicyRefs(t *testing.T, f fxFile, where string, refs []v1.PolicyReference, idx map[string]fxFile) {
	t.Helper()
	for _, r := range refs {
		ns := r.Namespace
		if ns == "" {
			ns = fxNamespace
		}
		pf, ok := idx[ns+"/"+r.Name]
		if !ok {
			t.Errorf("%s: %s references policy %s/%s which is not a policy fixture", f.base, where, ns, r.Name)
			continue
		}
		if pf.plusOnly && !f.plusOnly {
			t.Errorf("%s: %s references plus-only policy fixture %s from an OSS fixture", f.base, where, pf.base)
		}
	}
}

func TestFxVirtualServersAndRoutes(t *testing.T) {
	polIdx := fxPolicyIndex(t)

	vsCov := newFxCoverage("VirtualServer", reflect.TypeOf(v1.VirtualServerSpec{}))
	vsrCov := newFxCoverage("VirtualServerRoute", reflect.TypeOf(v1.VirtualServerRouteSpec{}))

	type loadedVSR struct {
		f        fxFile
		vsr      *v1.VirtualServerRoute
		referrer []string
	}
	vsrs := map[string]*loadedVSR{}
	for _, f := range fxLoad(t, "vsr") {
		vsr := &v1.VirtualServerRoute{}
		if err := yaml.UnmarshalStrict(f.data, vsr); err != nil {
			t.Errorf("%s: decode: %v", f.base, err)
			continue
		}
		fxCheckMeta(t, f, vsr.APIVersion, vsr.Kind, "k8s.nginx.org/v1", "VirtualServerRoute", vsr.Name, vsr.Namespace)
		for _, plus := range f.flavours() {
			if err := fxVSValidator(plus).ValidateVirtualServerRoute(vsr); err != nil {
				t.Errorf("%s [%s]: rejected: %v", f.base, fxFlavourName(plus), err)
			}
		}
		for i, r := range vsr.Spec.Subroutes {
			fxCheckPolicyRefs(t, f, fmt.Sprintf("spec.subroutes[%d]", i), r.Policies, polIdx)
		}
		fxNoteOSS(t, f, fxVSValidator(false).ValidateVirtualServerRoute(vsr))
		vsrCov.add(vsr.Spec, f.base)
		vsrs[vsr.Namespace+"/"+vsr.Name] = &loadedVSR{f: f, vsr: vsr}
	}
	if len(vsrs) == 0 {
		t.Fatal("no vsr fixtures")
	}

	files := fxLoad(t, "vs")
	if len(files) == 0 {
		t.Fatal("no vs fixtures")
	}
	hosts := map[string]string{}
	for _, f := range files {
		vs := &v1.VirtualServer{}
		if err := yaml.UnmarshalStrict(f.data, vs); err != nil {
			t.Errorf("%s: decode: %v", f.base, err)
			continue
		}
		fxCheckMeta(t, f, vs.APIVersion, vs.Kind, "k8s.nginx.org/v1", "VirtualServer", vs.Name, vs.Namespace)
		if other, dup := hosts[vs.Spec.Host]; dup {
			t.Errorf("%s: host %s already used by %s", f.base, vs.Spec.Host, other)
		}
		hosts[vs.Spec.Host] = f.base
		for _, plus := range f.flavours() {
			if err := fxVSValidator(plus).ValidateVirtualServer(vs); err != nil {
				t.Errorf("%s [%s]: rejected: %v", f.base, fxFlavourName(plus), err)
			}
		}
		fxCheckPolicyRefs(t, f, "spec", vs.Spec.Policies, polIdx)
		for i, r := range vs.Spec.Routes {
			fxCheckPolicyRefs(t, f, fmt.Sprintf("spec.routes[%d]", i), r.Policies, polIdx)
			if r.Route == "" {
				continue
			}
			key := r.Route
			if !strings.Contains(key, "/") {
				key = vs.Namespace + "/" + key
			}
			l, ok := vsrs[key]
			if !ok {
				t.Errorf("%s: route %q delegates to %s which is not a vsr fixture", f.base, r.Path, key)
				continue
			}
			if l.f.plusOnly && !f.plusOnly {
				t.Errorf("%s: OSS fixture delegates to plus-only vsr fixture %s", f.base, l.f.base)
			}
			l.referrer = append(l.referrer, fmt.Sprintf("%s route %s", f.base, r.Path))
			for _, plus := range []bool{false, true} {
				if !plus && (f.plusOnly || l.f.plusOnly) {
					continue
				}
				if err := fxVSValidator(plus).ValidateVirtualServerRouteForVirtualServer(l.vsr, vs.Spec.Host, r.Path); err != nil {
					t.Errorf("%s for %s route %s [%s]: rejected: %v", l.f.base, f.base, r.Path, fxFlavourName(plus), err)
				}
			}
		}
		fxNoteOSS(t, f, fxVSValidator(false).ValidateVirtualServer(vs))
		vsCov.add(vs.Spec, f.base)
	}
	for key, l := range vsrs {
		if len(l.referrer) == 0 {
			t.Errorf("%s (%s): no vs fixture delegates to it", l.f.base, key)
		} else {
			t.Logf("DELEGATION %s <- %s", l.f.base, strings.Join(l.referrer, "; "))
		}
	}
	vsCov.report(t)
	vsrCov.report(t)
}

// TestFxUncoveredReasons shows that the string paths left uncovered by the
// fixture set are uncovered because the validators reject every non-empty value
// under the required configuration (snippets disabled; `route` forbidden in
// VirtualServerRoute subroutes).
func TestFxUncoveredReasons(t *testing.T) {
	mustReject := func(what string, err error) {
		t.Helper()
		if err == nil {
			t.Errorf("%s: expected rejection, got acceptance", what)
			return
		}
		t.Logf("REJECTED %s: %s", what, strings.ReplaceAll(err.Error(), "\n", " | "))
	}

	tsData, err := os.ReadFile(filepath.Join(fxDir, "ts-dns-tcp.yaml"))
	if err != nil {
		t.Fatal(err)
	}
	for _, plus := range []bool{false, true} {
		var ts v1.TransportServer
		if err := yaml.UnmarshalStrict(tsData, &ts); err != nil {
			t.Fatal(err)
		}
		ts.Spec.ServerSnippets = "deny 192.168.1.1;"
		mustReject("TransportServer.spec.serverSnippets ["+fxFlavourName(plus)+"]", NewTransportServerValidator(true, false, plus).ValidateTransportServer(&ts))
		ts.Spec.ServerSnippets = ""
		ts.Spec.StreamSnippets = "limit_conn_zone $binary_remote_addr zone=addr:10m;"
		mustReject("TransportServer.spec.streamSnippets ["+fxFlavourName(plus)+"]", NewTransportServerValidator(true, false, plus).ValidateTransportServer(&ts))
	}

	vsrData, err := os.ReadFile(filepath.Join(fxDir, "vsr-pastry.yaml"))
	if err != nil {
		t.Fatal(err)
	}
	for _, plus := range []bool{false, true} {
		var vsr v1.VirtualServerRoute
		if err := yaml.UnmarshalStrict(vsrData, &vsr); err != nil {
			t.Fatal(err)
		}
		vsr.Spec.Subroutes = append(vsr.Spec.Subroutes, v1.Route{Path: "/pastry/nested", Route: "d/nested"})
		mustReject("VirtualServerRoute.spec.subroutes[].route ["+fxFlavourName(plus)+"]", fxVSValidator(plus).ValidateVirtualServerRoute(&vsr))
		mustReject("VirtualServerRoute.spec.subroutes[].route for VS ["+fxFlavourName(plus)+"]", fxVSValidator(plus).ValidateVirtualServerRouteForVirtualServer(&vsr, vsr.Spec.Host, "/pastry"))
	}
}

// TestFxValidatorObservations pins down validator behaviour worth knowing when
// generating inputs: fields that accept free text, and Plus-only features that
// the validators do not gate.
func TestFxValidatorObservations(t *testing.T) {
	observe := func(what string, err error) {
		t.Helper()
		if err != nil {
			t.Errorf("OBSERVATION no longer holds: %s: %v", what, err)
			return
		}
		t.Logf("OBSERVED (accepted): %s", what)
	}
	free := "free text; with {braces} $vars \"quotes\" and a trailing backslash \\"

	// TransportServer
	loadTS := func(name string) *v1.TransportServer {
		data, err := os.ReadFile(filepath.Join(fxDir, name))
		if err != nil {
			t.Fatal(err)
		}
		ts := &v1.TransportServer{}
		if err := yaml.UnmarshalStrict(data, ts); err != nil {
			t.Fatal(err)
		}
		return ts
	}
	ts := loadTS("ts-mysql.plus.yaml")
	ts.Spec.Upstreams[0].LoadBalancingMethod = "least_conn"
	observe("TransportServer healthCheck (+match) is accepted with plus=false: the validator does not gate it on NGINX Plus",
		NewTransportServerValidator(true, false, false).ValidateTransportServer(ts))
	ts.Spec.Upstreams[0].HealthCheck.Match.Send = free
	observe("TransportServer healthCheck.match.send is never validated (validateMatchSend is called with match.Expect): free text accepted",
		NewTransportServerValidator(true, false, true).ValidateTransportServer(ts))
	ts = loadTS("ts-dns-tcp.yaml")
	ts.Spec.Listener.Protocol = "HTTP"
	observe("TransportServer listener.protocol HTTP is accepted (protocol set shared with GlobalConfiguration)",
		NewTransportServerValidator(true, false, false).ValidateTransportServer(ts))
	ts = loadTS("ts-dns-tcp.yaml")
	ts.Spec.IngressClass = free
	neg := -5
	ts.Spec.Upstreams[0].MaxConns = &neg
	observe("TransportServer ingressClassName is free text; upstreams[].maxConns is not validated (validator re-checks maxFails under the maxConns path): -5 accepted",
		NewTransportServerValidator(true, false, false).ValidateTransportServer(ts))
	ts = loadTS("ts-dns-tcp.yaml")
	ts.Spec.Upstreams[0].LoadBalancingMethod = "hash any;token{}"
	ts.Spec.Upstreams[0].Backup, ts.Spec.Upstreams[0].BackupPort = "", nil
	observe("TransportServer loadBalancingMethod accepts 'hash <any token without $ and whitespace>'",
		NewTransportServerValidator(true, false, false).ValidateTransportServer(ts))

	// VirtualServer
	data, err := os.ReadFile(filepath.Join(fxDir, "vs-cafe.yaml"))
	if err != nil {
		t.Fatal(err)
	}
	loadVS := func() *v1.VirtualServer {
		vs := &v1.VirtualServer{}
		if err := yaml.UnmarshalStrict(data, vs); err != nil {
			t.Fatal(err)
		}
		return vs
	}
	vs := loadVS()
	vs.Spec.IngressClass = free
	vs.Spec.Listener.HTTP = free
	vs.Spec.Listener.HTTPS = free
	vs.Spec.HTTPSnippets = free
	vs.Spec.ServerSnippets = free
	vs.Spec.TLS.CertManager = &v1.CertManager{ClusterIssuer: free, Issuer: free, IssuerKind: free, IssuerGroup: free, CommonName: free, Duration: free, RenewBefore: free, Usages: free}
	vs.Spec.ExternalDNS.RecordType = free
	vs.Spec.ExternalDNS.Labels = map[string]string{free: free}
	vs.Spec.ExternalDNS.ProviderSpecific = v1.ProviderSpecific{{Name: free, Value: free}}
	for i := range vs.Spec.Routes {
		vs.Spec.Routes[i].LocationSnippets = free
	}
	observe("VirtualServer ingressClassName, listener.http/https, http-snippets, server-snippets, routes[].location-snippets, every tls.cert-manager.* string (cluster-issuer and issuer together), externalDNS.recordType/labels/providerSpecific are not validated: free text accepted",
		fxVSValidator(false).ValidateVirtualServer(vs))

	vs = loadVS()
	for i := range vs.Spec.Routes {
		if a := vs.Spec.Routes[i].Action; a != nil && a.Return != nil {
			a.Return.Headers = []v1.Header{{Name: free, Value: free}}
		}
	}
	observe("VirtualServer routes[].action.return.headers[].name/value are not validated for actions (only errorPages[].return.headers are): free text accepted",
		fxVSValidator(false).ValidateVirtualServer(vs))

	vs = loadVS()
	vs.Spec.Upstreams[1].LBMethod = "hash any;token{}\"quoted\""
	observe("VirtualServer upstreams[].lb-method accepts 'hash <any single token>' (and 'hash <token> consistent')",
		fxVSValidator(false).ValidateVirtualServer(vs))

	// Policy
	loadPol := func(name string) *v1.Policy {
		data, err := os.ReadFile(filepath.Join(fxDir, name))
		if err != nil {
			t.Fatal(err)
		}
		pol := &v1.Policy{}
		if err := yaml.UnmarshalStrict(data, pol); err != nil {
			t.Fatal(err)
		}
		return pol
	}
	pol := loadPol("policy-egress-mtls.yaml")
	pol.Spec.IngressClass = free
	pol.Spec.EgressMTLS.Ciphers = free
	pol.Spec.EgressMTLS.Protocols = free
	observe("Policy ingressClassName, egressMTLS.ciphers and egressMTLS.protocols are not validated: free text accepted", ValidatePolicy(pol, false, true, true))
	pol = loadPol("policy-ingress-mtls.yaml")
	pol.Spec.IngressMTLS.CrlFileName = free
	observe("Policy ingressMTLS.crlFileName is not validated: free text accepted", ValidatePolicy(pol, false, true, true))
	pol = loadPol("policy-rate-limit-jwt.plus.yaml")
	pol.Spec.RateLimit.Condition.JWT.Claim = free
	pol.Spec.RateLimit.Condition.JWT.Match = free
	observe("Policy rateLimit.condition.jwt.claim/match are not validated in Go (only by the CRD pattern): free text accepted", ValidatePolicy(pol, true, true, true))
	pol = loadPol("policy-api-key.yaml")
	pol.Spec.APIKey.SuppliedIn.Query = []string{"free text; with {braces} $vars"}
	observe("Policy apiKey.suppliedIn.query[] only has to be an escaped string: ';', '{', '}', '$' and spaces accepted", ValidatePolicy(pol, false, true, true))
	pol = loadPol("policy-waf-bundle.plus.yaml")
	pol.Spec.WAF.SecurityLogs[0].LogDest = "/any path; is accepted as long as {it} starts with a slash"
	observe("Policy waf.securityLogs[].logDest: the destination regexp is unanchored, anything containing '/<non-space>' is accepted", ValidatePolicy(pol, true, true, true))
}
