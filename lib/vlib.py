"""Shared machinery for ./check: builds, Lean audit, correspondence run, verdict,
evidence.  See DESIGN.md section 3."""
import fcntl, hashlib, json, os, re, shutil, subprocess, sys, tempfile, time

VERIF = os.path.dirname(os.path.dirname(os.path.abspath(__file__)))
REPO = os.environ.get("VERIF_REPO", "/repo")
BUILD = os.path.join(VERIF, ".build")
LOCKS = os.path.join(VERIF, ".locks")
LEAN = os.path.join(VERIF, "lean")
ALLOWED_AXIOMS = {"propext", "Classical.choice", "Quot.sound"}
FORBIDDEN = re.compile(r"\bsorry\b|\badmit\b|^axiom |native_decide|bv_decide|implemented_by|\bunsafe |maxHeartbeats 0", re.M)

TRUSTED_BASE_COMMON = [
    "Lean 4.33 kernel; axioms limited to propext, Classical.choice, Quot.sound (audited per theorem on every run)",
    "correspondence check = differential testing of the Lean model's executable definitions against the real Go code built from /repo's working tree (reach bounded by the generators; distribution recorded here)",
    "harness glue injected by go build -overlay (tag verif) and the canonicalisation code on both sides",
]


def goenv():
    e = dict(os.environ)
    e["GOFLAGS"] = "-mod=mod"
    e["GOPROXY"] = "off"
    e.pop("GOTOOLCHAIN", None)   # must stay auto: go.mod asks for a cached newer toolchain
    e.pop("GOSUMDB", None)
    return e


class Lock:
    def __init__(self, name):
        os.makedirs(LOCKS, exist_ok=True)
        self.path = os.path.join(LOCKS, name)

    def __enter__(self):
        self.f = open(self.path, "w")
        fcntl.flock(self.f, fcntl.LOCK_EX)
        return self

    def __exit__(self, *a):
        fcntl.flock(self.f, fcntl.LOCK_UN)
        self.f.close()


def write_overlay():
    os.makedirs(BUILD, exist_ok=True)
    ov = {}
    hroot = os.path.join(VERIF, "harness")
    for root, _, files in os.walk(hroot):
        for f in files:
            if f.endswith(".go"):
                p = os.path.join(root, f)
                ov[os.path.join(REPO, os.path.relpath(p, hroot))] = p
    path = os.path.join(BUILD, "overlay.json")
    tmp = path + ".%d" % os.getpid()
    json.dump({"Replace": ov}, open(tmp, "w"), indent=1)
    os.replace(tmp, path)
    return path


def build_go(binname, race=False):
    """Build harness command cmd/<binname> from /repo's working tree with the
    injected files.  Returns (ok, log)."""
    with Lock("go-" + binname + ("-race" if race else "")):
        ov = write_overlay()
        out = os.path.join(BUILD, binname + ("-race" if race else ""))
        cmd = ["go", "build", "-tags", "verif", "-overlay", ov, "-o", out]
        if race:
            cmd.append("-race")
        cmd.append("./cmd/" + binname)
        p = subprocess.run(cmd, cwd=REPO, env=goenv(), capture_output=True, text=True)
        # -mod=mod lets the go command rewrite go.mod / go.sum when an injected file imports a module the repository only
        # requires indirectly: that would edit /repo.  Detect it, undo it, and report the harness as broken.
        d = subprocess.run(["git", "diff", "--quiet", "HEAD", "--", "go.mod", "go.sum"], cwd=REPO)
        if d.returncode != 0 and os.environ.get("VERIF_ALLOW_GOMOD") is None:
            subprocess.run(["git", "checkout", "HEAD", "--", "go.mod", "go.sum"], cwd=REPO)
            return False, "the harness build rewrote /repo/go.mod or go.sum (an injected file imports an indirect dependency); restored\n" + p.stdout + p.stderr, out
        return p.returncode == 0, (p.stdout + p.stderr), out


def build_translator(name):
    """Translators are standalone Go programs under /verif/translate/<name> (stdlib only)."""
    with Lock("tr-" + name):
        out = os.path.join(BUILD, "tr-" + name)
        src = os.path.join(VERIF, "translate", name)
        e = goenv()
        e["GOFLAGS"] = ""
        e["GO111MODULE"] = "off"
        p = subprocess.run(["go", "build", "-o", out, "."], cwd=src, env=e, capture_output=True, text=True)
        return p.returncode == 0, (p.stdout + p.stderr), out


def lake_build(targets):
    with Lock("lake"):
        p = subprocess.run(["lake", "build"] + targets, cwd=LEAN, capture_output=True, text=True)
        return p.returncode == 0, p.stdout + p.stderr


def regenerate_fns():
    """tools/gofn: translate the reviewed list of Go functions (expect/gofn_spec.json) from /repo's working tree into
    lean/Nic/Gen/Fns.lean. Returns (failed: {"file:func": reason}, done: [..]); a build / run failure of the translator itself
    is reported under the key "translator"."""
    import json
    tooldir = os.path.join(VERIF, "tools", "gofn")
    binp = os.path.join(VERIF, ".build", "gofn")
    gen = os.path.join(LEAN, "Nic", "Gen", "Fns.lean")
    with Lock("gofn"):
        os.makedirs(os.path.dirname(binp), exist_ok=True)
        os.makedirs(os.path.dirname(gen), exist_ok=True)
        p = subprocess.run(["go", "build", "-o", binp, "."], cwd=tooldir, env=goenv(), capture_output=True, text=True)
        if p.returncode != 0:
            return {"translator": "build failed: " + p.stderr[-1500:]}, []
        p = subprocess.run([binp, REPO, os.path.join(VERIF, "expect", "gofn_spec.json")], capture_output=True, text=True)
        if p.returncode != 0:
            return {"translator": "run failed: " + p.stderr[-1500:]}, []
        out = json.loads(p.stdout)
        old = open(gen).read() if os.path.exists(gen) else None
        if old != out["lean"]:
            with open(gen, "w") as f:
                f.write(out["lean"])
        return out.get("failed") or {}, out.get("done") or []


def strip_comments(src):
    src = re.sub(r"/-.*?-/", "", src, flags=re.S)
    src = re.sub(r"--.*", "", src)
    return src


def theorems_of(relpath):
    """Namespace-qualified names of the (non-private) theorems of a Props file."""
    src = strip_comments(open(os.path.join(LEAN, relpath)).read())
    ns = []
    out = []
    for line in src.splitlines():
        m = re.match(r"^namespace\s+(\S+)", line)
        if m:
            ns.append(m.group(1))
            continue
        m = re.match(r"^end\s+(\S+)", line)
        if m and ns and ns[-1] == m.group(1):
            ns.pop()
            continue
        m = re.match(r"^(?:protected\s+)?theorem\s+([^\s:({\[]+)", line)
        if m:
            out.append(".".join(ns + [m.group(1)]))
    return out


def lean_audit(prop, props_files, extra_sources=()):
    """Run `#print axioms` on every property theorem; grep sources for forbidden
    constructs.  Returns dict(obligations, discharged, failures[list of str], axioms{})."""
    names = []
    for f in props_files:
        names += theorems_of(f)
    imports = "\n".join("import " + f[:-5].replace("/", ".") for f in props_files)
    body = imports + "\n" + "\n".join("#print axioms %s" % n for n in names) + "\n"
    os.makedirs(BUILD, exist_ok=True)
    af = os.path.join(BUILD, "audit_%s_%d.lean" % (prop, os.getpid()))
    open(af, "w").write(body)
    try:
        p = subprocess.run(["lake", "env", "lean", af], cwd=LEAN, capture_output=True, text=True)
    finally:
        os.unlink(af)
    out = p.stdout + p.stderr
    axioms = {}
    for m in re.finditer(r"'([^']+)' depends on axioms: \[([^\]]*)\]", out, re.S):
        axioms[m.group(1)] = [a.strip() for a in m.group(2).replace("\n", " ").split(",") if a.strip()]
    for m in re.finditer(r"'([^']+)' does not depend on any axioms", out):
        axioms[m.group(1)] = []
    failures = []
    discharged = 0
    for n in names:
        if n not in axioms:
            failures.append("theorem %s: not found by the axiom audit" % n)
        elif set(axioms[n]) - ALLOWED_AXIOMS:
            failures.append("theorem %s depends on disallowed axioms %s" % (n, sorted(set(axioms[n]) - ALLOWED_AXIOMS)))
        else:
            discharged += 1
    # forbidden constructs in every source the property's closure is made of
    srcs = list(props_files) + list(extra_sources)
    for f in srcs:
        path = os.path.join(LEAN, f)
        if not os.path.exists(path):
            continue
        m = FORBIDDEN.search(strip_comments(open(path).read()))
        if m:
            failures.append("forbidden construct %r in %s" % (m.group(0), f))
    return dict(obligations=len(names), discharged=discharged, failures=failures, axioms=axioms, names=names)


def lean_closure_sources(props_files):
    """Transitive `import Nic.*` closure of the given files (relative paths under lean/)."""
    seen, todo = [], list(props_files)
    while todo:
        f = todo.pop()
        if f in seen or not os.path.exists(os.path.join(LEAN, f)):
            continue
        seen.append(f)
        for m in re.findall(r"^import\s+(Nic\.\S+)", open(os.path.join(LEAN, f)).read(), re.M):
            todo.append(m.replace(".", "/") + ".lean")
    return seen


def run_lines(cmd, lines, timeout=1800, env=None, cwd=None):
    p = subprocess.run(cmd, input="\n".join(lines) + "\n", capture_output=True, text=True, timeout=timeout, env=env, cwd=cwd)
    return p.returncode, p.stdout, p.stderr


def parse_out(text, tag):
    d = {}
    for l in text.splitlines():
        f = l.split(" ", 2)
        if len(f) >= 2 and f[0] == tag:
            d[f[1]] = f[2] if len(f) > 2 else ""
    return d


def run_driver(lines, timeout=1800):
    exe = os.path.join(LEAN, ".lake", "build", "bin", "driver")
    rc, out, err = run_lines([exe], lines, timeout=timeout)
    return parse_out(out, "model"), parse_out(out, "spec"), (rc, err)


def run_harness(binpath, lines, timeout=1800, unshare_fakebin=False, parallel=1):
    if parallel > 1 and len(lines) > parallel:
        from concurrent.futures import ThreadPoolExecutor
        chunks = [lines[i::parallel] for i in range(parallel)]
        res, crashes = {}, []
        with ThreadPoolExecutor(parallel) as ex:
            for r, c in ex.map(lambda ch: run_harness1(binpath, ch, timeout, unshare_fakebin), chunks):
                res.update(r)
                crashes += c
        return res, crashes
    return run_harness1(binpath, lines, timeout, unshare_fakebin)


def run_harness1(binpath, lines, timeout=1800, unshare_fakebin=False):
    """Run the real-code harness.  A crash of the process (fatal error, not a
    recoverable panic) is isolated by re-running the remaining lines."""
    cmd = [binpath]
    if unshare_fakebin:
        fake = os.path.join(VERIF, "harness", "fakebin")
        probe = subprocess.run(["unshare", "-m", "sh", "-c", "mount --bind %s /usr/sbin" % fake], capture_output=True)
        if probe.returncode == 0:
            cmd = ["unshare", "-m", "sh", "-c", "mount --bind %s /usr/sbin && exec %s" % (fake, binpath)]
    res = {}
    pending = list(lines)
    crashes = []
    guard = 0
    while pending and guard < 50:
        guard += 1
        rc, out, err = run_lines(cmd, pending, timeout=timeout, env=goenv())
        got = parse_out(out, "impl")
        res.update(got)
        if rc == 0:
            break
        # find the first line without an answer: it killed the process
        idx = None
        for i, l in enumerate(pending):
            f = l.split()
            if len(f) >= 2 and f[1] not in got and not l.startswith("#"):
                idx = i
                break
        if idx is None:
            break
        cid = pending[idx].split()[1]
        res[cid] = "CRASH " + (err.strip().splitlines()[0] if err.strip() else "rc=%d" % rc).replace(" ", "_")[:200]
        crashes.append((cid, err[-4000:]))
        pending = pending[idx + 1:]
    return res, crashes


class SplitMix:
    """Deterministic PRNG; every random choice of a run derives from one state."""

    def __init__(self, seed):
        self.s = (seed * 0x9E3779B97F4A7C15 + 0x1234567) & 0xFFFFFFFFFFFFFFFF

    def next(self):
        self.s = (self.s + 0x9E3779B97F4A7C15) & 0xFFFFFFFFFFFFFFFF
        z = self.s
        z = ((z ^ (z >> 30)) * 0xBF58476D1CE4E5B9) & 0xFFFFFFFFFFFFFFFF
        z = ((z ^ (z >> 27)) * 0x94D049BB133111EB) & 0xFFFFFFFFFFFFFFFF
        return z ^ (z >> 31)

    def below(self, n):
        return self.next() % n if n > 0 else 0

    def choice(self, xs):
        return xs[self.below(len(xs))]

    def chance(self, num, den):
        return self.below(den) < num

    def weighted(self, pairs):
        tot = sum(w for _, w in pairs)
        r = self.below(tot)
        for x, w in pairs:
            if r < w:
                return x
            r -= w
        return pairs[-1][0]

    def shuffle(self, xs):
        xs = list(xs)
        for i in range(len(xs) - 1, 0, -1):
            j = self.below(i + 1)
            xs[i], xs[j] = xs[j], xs[i]
        return xs


def load_findings():
    p = os.path.join(VERIF, "known_findings.json")
    if not os.path.exists(p):
        return []
    return json.load(open(p)).get("findings", [])


def sha(s):
    return hashlib.sha1(s.encode()).hexdigest()[:12]


def write_replay(prop, obj):
    d = os.path.join(VERIF, "replays")
    os.makedirs(d, exist_ok=True)
    body = json.dumps(obj, indent=1, sort_keys=True)
    path = os.path.join(d, "%s-%s.json" % (prop, sha(body)))
    open(path, "w").write(body)
    return path


def write_evidence(prop, tier, seed, coverage, assumptions, wall, violations, level="proof"):
    d = os.path.join(VERIF, "evidence")
    os.makedirs(d, exist_ok=True)
    ev = dict(property_id=prop, tier=tier, seed=seed, level=level, coverage=coverage,
              assumptions=assumptions, wall_s=round(wall, 2), violations=violations)
    tmp = os.path.join(d, ".%s.%d" % (prop, os.getpid()))
    json.dump(ev, open(tmp, "w"), indent=1, sort_keys=True)
    os.replace(tmp, os.path.join(d, prop + ".json"))
