"""Parse Go race detector logs into racing pairs of source sites (innermost frames inside /repo that are not harness code)."""
import glob
import re


def site_of(stack_lines):
    # stack_lines: alternating "  func(...)" and "      /path/file.go:NN +0x.."
    fn = None
    for l in stack_lines:
        s = l.strip()
        if s.startswith("/") or re.match(r"^[A-Za-z]:", s):
            path = s.split()[0]
            if "/repo/" in path and "zz_verif" in path:
                return "harness(inlined-callee)"
            if "/repo/" in path and "/verifio/" not in path and "/cmd/vh-" not in path:
                rel = path.split("/repo/", 1)[1]
                name = re.sub(r"\([^()]*\)$", "", fn or "?").split("/")[-1]
                return "%s@%s" % (name, rel.rsplit(":", 1)[0])
        else:
            fn = s
    return None


def parse(prefix):
    pairs = {}
    for f in glob.glob(prefix + "*"):
        txt = open(f, errors="replace").read()
        for rep in txt.split("WARNING: DATA RACE")[1:]:
            rep = rep.split("==================")[0]
            blocks = re.split(r"\n(?=(?:Previous |)(?:[Rr]ead|[Ww]rite) at |Goroutine )", rep)
            acc = []
            for b in blocks:
                m = re.match(r"\s*(Previous )?((?:atomic )?[Rr]ead|(?:atomic )?[Ww]rite) at \S+ by (main goroutine|goroutine \d+)", b)
                if not m:
                    continue
                site = site_of(b.splitlines()[1:])
                acc.append(("W" if "rite" in m.group(2) else "R", site or "outside-repo"))
            if len(acc) >= 2:
                key = tuple(sorted("%s:%s" % a for a in acc[:2]))
                pairs[key] = pairs.get(key, 0) + 1
    return pairs


if __name__ == "__main__":
    import sys
    for k, v in sorted(parse(sys.argv[1]).items()):
        print(v, " <-> ".join(k))
